#!/bin/bash
# tools/batchd.sh <Cxx> : take the finished batch-d agent output for property Cxx, verify it (seed.sh), run the owning quick check on it (mutwt.sh),
# and remove the agent's scratch worktree
P=$1; W=/tmp/agent_d_$P; SID=${P}_d1
[ -f $W/_out/1/patch.diff ] || { echo "$P: no patch"; git -C /repo worktree remove --force $W 2>/dev/null; exit 3; }
/verif/tools/seed.sh $W/_out/1 $SID $P > /tmp/batchd_seed_$P.txt 2>&1
cat /tmp/batchd_seed_$P.txt | tail -1
git -C /repo worktree remove --force $W
python3 - <<PY || exit 4
import json,sys
m=json.load(open("/verif/seeded/$SID/meta.json"))["verified"]
ok = m["demo_exit_clean"]==0 and m["demo_exit_with_patch"]!=0 and "3 failed, 80 passed" in m["unit_tests_with_patch"]
print("$SID verified ok" if ok else "$SID NOT VALID: %s" % m)
sys.exit(0 if ok else 1)
PY
VERIF_PROCS=${VERIF_PROCS:-6} /verif/tools/mutwt.sh $SID $P /verif/seeded/matrix_d.txt
tail -1 /verif/seeded/matrix_d.txt
