import argparse
import importlib
import json
import os
import sys


def main():
    ap = argparse.ArgumentParser()
    ap.add_argument("prop")
    ap.add_argument("--tier", default=os.environ.get("VERIF_TIER", "quick"), choices=["quick", "thorough"])
    ap.add_argument("--replay")
    a = ap.parse_args()
    modname = "pv.harness." + a.prop
    if a.replay:
        from . import run
        payload = json.load(open(a.replay))
        srv = run.ReplayServer()
        try:
            out = srv.call(payload.get("harness", modname), payload["kind"], payload["case"], "violation",
                           {"obligation": payload["obligation"], "detail": payload.get("detail"), "extra": payload.get("extra")})
        finally:
            srv.close()
        print(json.dumps(out, indent=1))
        if out.get("violates"):
            print("VIOLATION property=%s replay=%s" % (a.prop, a.replay))
            return 1
        return 0 if not out.get("error") else 2
    from . import run
    return run.main(a.prop, modname, a.tier)


if __name__ == "__main__":
    sys.exit(main())
