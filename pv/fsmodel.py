"""In-memory model of the file / csv / pathlib / os / atexit layer used by the aggregator and the statistics loader.

A file is a list of rows, a row a list of cells.  csv text quoting and CPython's float repr round trip are NOT modelled
(trusted, exercised for real on every replay): a number written by csv.writer is read back as a NumCell that float() maps
to the same number; None is written as the empty string.  Every operation is recorded in FS.ops (used by the protocol layer).
"""
from __future__ import annotations

import builtins
import os as real_os
import pathlib as real_pathlib
import types

from .sym import Sym, SNum
from .symstr import SStr


class NumCell:
    """the text csv wrote for a number; len() > 0 and float() gives the number back"""

    def __init__(self, value):
        self.value = value

    def __len__(self):
        return 3

    def __symfloat__(self):
        return self.value

    def __eq__(self, o):
        return isinstance(o, NumCell) and o.value is self.value

    def __hash__(self):
        return 0

    def __repr__(self):
        return "NumCell(%r)" % (self.value,)


def to_text(c):
    if c is None:
        return ""
    if isinstance(c, (builtins.str, SStr)):
        return c
    if isinstance(c, builtins.bool):
        return builtins.str(c)
    if isinstance(c, (builtins.int, builtins.float, SNum)) or type(c).__module__ == "numpy":
        return NumCell(c)
    if isinstance(c, NumCell):
        return c
    raise TypeError("csv cell %r" % (c,))


class FS:
    def __init__(self):
        self.files = {}
        self.dirs = set()
        self.ops = []
        self.atexit = []
        self.hook = None          # optional callable(op_name, path) invoked before every operation (crash / schedule points)

    def _op(self, name, path, extra=None):
        self.ops.append((name, path, extra))
        if self.hook is not None:
            self.hook(name, path, extra)

    def exists(self, path):
        path = builtins.str(path)
        self._op("exists", path)
        return path in self.files or path in self.dirs or self._is_dir(path)

    def _is_dir(self, path):
        return any(f.startswith(path.rstrip("/") + "/") for f in self.files) or path in ("/", ".", "")

    def remove(self, path):
        path = builtins.str(path)
        self._op("remove", path)
        if path not in self.files:
            raise FileNotFoundError(path)
        del self.files[path]

    def open(self, path, mode="r", **kw):
        path = builtins.str(path)
        if "a" in mode or "w" in mode:
            self._op("open_" + mode[0], path)
            if "w" in mode or path not in self.files:
                self.files[path] = [] if "w" in mode else self.files.get(path, [])
            return FileObj(self, path, mode)
        self._op("open_r", path)
        if path not in self.files:
            raise FileNotFoundError(2, "No such file or directory", path)
        return FileObj(self, path, mode)


class FileObj:
    def __init__(self, fs, path, mode):
        self.fs, self.path, self.mode = fs, path, mode

    def __enter__(self):
        return self

    def __exit__(self, *a):
        return False

    def close(self):
        pass

    def _text_rows(self):
        """the file as text: one line per row, cells joined by tabs (cells may be bounded symbolic strings)"""
        from . import symstr
        self.fs._op("read", self.path)
        rows = []
        for r in self.fs.files[self.path]:
            line = ""
            for i, c in enumerate(r):
                if i:
                    line = line + "\t"
                line = line + (c if isinstance(c, (builtins.str, symstr.SStr)) else to_text(c))
            rows.append(line + "\n")
        return rows

    def read(self, *a):
        out = ""
        for ln in self._text_rows():
            out = out + ln
        return out

    def readlines(self):
        return self._text_rows()

    def __iter__(self):
        return iter(self._text_rows())


class _Writer:
    def __init__(self, f):
        self.f = f

    def writerow(self, row):
        cells = [to_text(c) for c in row]
        self.f.fs._op("append", self.f.path, cells)
        self.f.fs.files[self.f.path] = self.f.fs.files[self.f.path] + [cells]

    def writerows(self, rows):
        for r in rows:
            self.writerow(r)


def make_modules(fs):
    """fake csv / os / pathlib / atexit modules and the `open` builtin bound to the file-system model `fs`"""
    csvm = types.ModuleType("csv")

    def reader(f, **kw):
        fs._op("read", f.path)
        return [list(r) for r in fs.files[f.path]]
    csvm.reader = reader
    csvm.writer = lambda f, **kw: _Writer(f)

    osm = types.ModuleType("os")
    for k, v in real_os.__dict__.items():
        if not k.startswith("__"):
            setattr(osm, k, v)
    osm.remove = fs.remove
    pth = types.ModuleType("os.path")
    for k, v in real_os.path.__dict__.items():
        if not k.startswith("__"):
            setattr(pth, k, v)
    pth.exists = fs.exists
    osm.path = pth

    class FakePath:
        def __init__(self, *parts):
            self._p = real_pathlib.PurePosixPath(*[builtins.str(p) if isinstance(p, FakePath) else p for p in parts])

        def __str__(self):
            return builtins.str(self._p)

        def __fspath__(self):
            return builtins.str(self._p)

        def __repr__(self):
            return "FakePath(%r)" % builtins.str(self._p)

        @property
        def parent(self):
            return type(self)(self._p.parent)

        @property
        def name(self):
            return self._p.name

        @property
        def stem(self):
            return self._p.stem

        @property
        def suffix(self):
            return self._p.suffix

        def joinpath(self, *a):
            return type(self)(self._p.joinpath(*[builtins.str(x) for x in a]))

        def __truediv__(self, o):
            return self.joinpath(o)

        def exists(self):
            return fs.exists(builtins.str(self._p))

        def mkdir(self, parents=False, exist_ok=False):
            fs.dirs.add(builtins.str(self._p))

        def __eq__(self, o):
            return isinstance(o, FakePath) and o._p == self._p

        def __hash__(self):
            return hash(self._p)

        def glob(self, q):
            return []
    plm = types.ModuleType("pathlib")
    plm.Path = FakePath
    plm.PurePosixPath = real_pathlib.PurePosixPath

    atm = types.ModuleType("atexit")
    atm.register = lambda f, *a, **k: fs.atexit.append(f)
    atm.unregister = lambda f: None
    return {"csv": csvm, "os": osm, "os.path": pth, "pathlib": plm, "atexit": atm}, fs.open
