"""symx: re-execution path-forking symbolic executor on top of z3 + symbolic scalar proxies.

The engine executes ordinary Python (the repository's own function bodies, imported into a
"twin", see twin.py).  Values that depend on symbolic inputs are SBool / SNum proxies wrapping z3
terms.  Whenever Python needs a concrete truth value (``if``, ``and``, ``sorted`` comparisons,
dict-key equality ...) ``SBool.__bool__`` calls ``Engine.branch`` which asks the solver which
outcomes are feasible under the current path condition and records the decision.  Exploration is
depth-first by re-execution under a decision prefix; every outcome (forced ones too) is recorded
so that a replayed prefix costs no solver call and cannot drift (checked by a structural hash).
"""
from __future__ import annotations

import builtins
import time
from fractions import Fraction

import z3

INT = z3.IntSort()
REAL = z3.RealSort()
BOOL = z3.BoolSort()


_COMM = {z3.Z3_OP_AND, z3.Z3_OP_OR, z3.Z3_OP_EQ, z3.Z3_OP_DISTINCT, z3.Z3_OP_ADD, z3.Z3_OP_MUL, z3.Z3_OP_XOR, z3.Z3_OP_IFF}
_shash_memo = {}


def shash(t):
    """structural hash of a term that is insensitive to the argument order of commutative operators
    (z3's simplifier orders those by AST id, which differs between re-executions)"""
    key = t.get_id()
    hit = _shash_memo.get(key)
    if hit is not None and hit[0].eq(t):
        return hit[1]
    d = t.decl()
    k = d.kind()
    ch = t.children()
    if not ch:
        h = hash((k, str(t)))
    else:
        hs = [shash(c) for c in ch]
        if k in _COMM:
            hs.sort()
        h = hash((k, d.name() if k == z3.Z3_OP_UNINTERPRETED else "", tuple(hs)))
    if len(_shash_memo) > 200000:
        _shash_memo.clear()
    _shash_memo[key] = (t, h)
    return h


class EngineSignal(BaseException):
    """Control flow of the engine; BaseException so that the repo's `except Exception` cannot swallow it."""


class Infeasible(EngineSignal):
    pass


class Inconclusive(EngineSignal):
    """solver answered unknown / model limitation reached: the run must not be reported as success"""


class Unsupported(EngineSignal):
    """the code under test used something the model does not implement (harness error, exit 2)"""


class Stats:
    def __init__(self):
        self.checks = 0
        self.sat = 0
        self.unsat = 0
        self.unknown = 0
        self.solver_s = 0.0
        self.decisions = 0
        self.paths = 0
        self.infeasible_paths = 0
        self.final_unsat = 0
        self.final_sat = 0
        self.model_shortcuts = 0

    def as_dict(self):
        return dict(self.__dict__)

    def merge(self, d):
        for k, v in d.items():
            setattr(self, k, getattr(self, k, 0) + v)


class Engine:
    def __init__(self):
        self.base = []          # harness assumptions valid on every path (set before explore)
        self.path = []          # path condition of the current run
        self.prefix = []
        self.trace = []         # [(value, other_side_feasible, cond_hash)]
        self.pos = 0
        self.model = None       # a model of base+path (or None if not known)
        self.stats = Stats()
        self.timeout_ms = 60000
        self.retry_timeout_ms = None
        self.logic = None       # None -> z3 default strategy on a fresh solver
        self.fresh = 0
        self.active = False
        self.max_decisions = 100000
        self.notes = []         # free-form records of the current path (harness use)
        self.seed = 0
        self.const_hash = False
        self.concretize_div = 0      # > 0: fork integer/integer true divisions whose operand intervals are at most this wide
        self.incremental = False   # one push/pop solver per path instead of a fresh solver per query
        self._inc = None
        self._inc_n = 0

    # ---------------------------------------------------------------- solver
    def _solver(self):
        s = z3.SolverFor(self.logic) if self.logic else z3.Solver()
        s.set("timeout", self.timeout_ms)
        if self.seed:
            try:
                s.set("random_seed", self.seed)
            except z3.Z3Exception:
                pass
        return s

    def _inc_check(self, extra, want_model):
        t = time.time()
        if self._inc is None:
            self._inc = z3.SolverFor(self.logic) if self.logic else z3.SimpleSolver()
            self._inc.set("timeout", self.timeout_ms)
            for b in self.base:
                self._inc.add(b)
            self._inc_n = 0
        while self._inc_n < len(self.path):
            self._inc.add(self.path[self._inc_n])
            self._inc_n += 1
        self._inc.push()
        for e in extra:
            self._inc.add(e)
        r = str(self._inc.check())
        m = self._inc.model() if (r == "sat" and want_model) else None
        self._inc.pop()
        self.stats.solver_s += time.time() - t
        self.stats.checks += 1
        return r, m

    def check(self, *extra, want_model=True, extra_base=()):
        if self.incremental and not extra_base:
            r, m = self._inc_check(extra, want_model)
            if r == "sat":
                self.stats.sat += 1
                return r, m
            if r == "unsat":
                self.stats.unsat += 1
                return r, None
        t = time.time()
        s = self._solver()
        for b in self.base:
            s.add(b)
        for b in extra_base:
            s.add(b)
        for p in self.path:
            s.add(p)
        for e in extra:
            s.add(e)
        r = str(s.check())
        self.stats.solver_s += time.time() - t
        self.stats.checks += 1
        if r == "sat":
            self.stats.sat += 1
            return r, (s.model() if want_model else None)
        if r == "unsat":
            self.stats.unsat += 1
            return r, None
        self.stats.unknown += 1
        # one retry with the generic strategy and a longer budget before giving up
        s2 = z3.Solver()
        s2.set("timeout", self.retry_timeout_ms or self.timeout_ms)
        for b in list(self.base) + list(extra_base) + list(self.path) + list(extra):
            s2.add(b)
        t = time.time()
        r2 = str(s2.check())
        self.stats.solver_s += time.time() - t
        self.stats.checks += 1
        if r2 == "sat":
            self.stats.sat += 1
            return r2, s2.model()
        if r2 == "unsat":
            self.stats.unsat += 1
            return r2, None
        raise Inconclusive("solver unknown: " + s2.reason_unknown())

    # ---------------------------------------------------------------- run control
    def begin(self, prefix):
        self.path = []
        self.prefix = prefix
        self.trace = []
        self.pos = 0
        self.model = None
        self.fresh = 0
        self.notes = []
        self.known = {}
        self.path_cache = {}
        self._inc = None
        self.active = True

    def fresh_name(self, stem):
        self.fresh += 1
        return "%s!%d" % (stem, self.fresh)

    def assume(self, cond):
        """add a constraint to the current path (used by stubs for contracts); Infeasible if contradictory"""
        cond = as_z3_bool(cond)
        cond = z3.simplify(cond)
        if z3.is_true(cond):
            return
        if z3.is_false(cond):
            raise Infeasible()
        if self.pos < len(self.prefix):
            # replaying: the assumption was feasible when first made on this prefix
            self.path.append(cond)
            self.model = None
            return
        if self.model is not None and z3.is_true(self.model.eval(cond, model_completion=True)):
            self.path.append(cond)
            return
        r, m = self.check(cond)
        if r != "sat":
            raise Infeasible()
        self.path.append(cond)
        self.model = m

    def branch(self, cond):
        cond = z3.simplify(cond)
        if z3.is_true(cond):
            return True
        if z3.is_false(cond):
            return False
        it = interval_truth(cond)
        if it is not None:
            return it
        h = shash(cond)
        kv = self.known.get(h)
        if kv is not None:
            return kv
        r = self._branch(cond, h)
        self.known[h] = r
        return r

    def _branch(self, cond, h):
        if self.pos < len(self.prefix):
            v, fl, ph, _pl = self.prefix[self.pos]
            if ph != h:
                raise Unsupported("replay drift at decision %d: %s" % (self.pos, cond))
            self.pos += 1
            self.trace.append((v, fl, h, None))
            self.path.append(cond if v else z3.Not(cond))
            self.model = None
            return v
        self.pos += 1
        self.stats.decisions += 1
        if self.pos > self.max_decisions:
            raise Unsupported("decision budget exceeded")
        ncond = z3.Not(cond)
        mv = None
        if self.model is not None:
            e = self.model.eval(cond, model_completion=True)
            if z3.is_true(e):
                mv = True
            elif z3.is_false(e):
                mv = False
        if mv is True:
            self.stats.model_shortcuts += 1
            r, _ = self.check(ncond, want_model=False)
            self.trace.append((True, r == "sat", h, None))
            self.path.append(cond)
            return True
        if mv is False:
            self.stats.model_shortcuts += 1
            r, m = self.check(cond)
            if r == "sat":
                self.trace.append((True, True, h, None))
                self.path.append(cond)
                self.model = m
                return True
            self.trace.append((False, False, h, None))
            self.path.append(ncond)
            return False
        r, m = self.check(cond)
        if r == "sat":
            r2, _ = self.check(ncond, want_model=False)
            self.trace.append((True, r2 == "sat", h, None))
            self.path.append(cond)
            self.model = m
            return True
        # the path itself is feasible by invariant, so the negation holds
        self.trace.append((False, False, h, None))
        self.path.append(ncond)
        self.model = None
        return False

    def concretize(self, term, lo=None, hi=None):
        """n-ary decision: a concrete Python int for an Int term, forking over its feasible values.
        With bounds the values are tried in increasing order; without, in solver-model order (the chosen
        value is stored in the trace so that replays are deterministic)."""
        term = z3.simplify(term)
        if z3.is_int_value(term):
            return term.as_long()
        if lo is not None and hi is not None:
            for v in range(lo, hi + 1):
                if self.branch(term == v):
                    return v
            raise Infeasible()
        for _ in range(100000):
            if self.pos < len(self.prefix):
                v, fl, ph, pl = self.prefix[self.pos]
                cond = z3.simplify(term == pl)
                if pl is None or shash(cond) != ph:
                    raise Unsupported("replay drift in concretize at decision %d" % self.pos)
                self.pos += 1
                self.trace.append((v, fl, ph, pl))
                self.path.append(cond if v else z3.Not(cond))
                self.model = None
                if v:
                    return pl
                continue
            m = self.path_model()
            val = m.eval(term, model_completion=True)
            if not z3.is_int_value(val):
                raise Unsupported("concretize: non-integer model value")
            pl = val.as_long()
            cond = z3.simplify(term == pl)
            self.pos += 1
            self.stats.decisions += 1
            r, _ = self.check(z3.Not(cond), want_model=False)
            self.trace.append((True, r == "sat", shash(cond), pl))
            self.path.append(cond)
            return pl
        raise Unsupported("concretize: too many values")

    def path_model(self):
        """a model of the current path (for witnesses)"""
        if self.model is not None:
            return self.model
        r, m = self.check()
        if r != "sat":
            raise Infeasible()
        self.model = m
        return m

    def explore(self, fn, on_path=None, max_paths=None, root=None, time_budget=None):
        """Depth-first exploration of all feasible paths of fn() (optionally below a decision prefix root)."""
        root = list(root or [])
        prefix = list(root)
        t0 = time.time()
        while True:
            self.begin(prefix)
            try:
                res = fn()
                self.stats.paths += 1
                if on_path is not None:
                    on_path(res)
            except Infeasible:
                self.stats.infeasible_paths += 1
            finally:
                self.active = False
            tr = self.trace
            while len(tr) > len(root) and not (tr[-1][0] and tr[-1][1]):
                tr.pop()
            if len(tr) <= len(root):
                break
            last = tr[-1]
            prefix = tr[:-1] + [(False, False, last[2], last[3])]
            if max_paths is not None and self.stats.paths >= max_paths:
                raise Unsupported("path budget %d exceeded" % max_paths)
            if time_budget is not None and time.time() - t0 > time_budget:
                raise Unsupported("time budget %.0fs exceeded after %d paths" % (time_budget, self.stats.paths))
        return self.stats.paths


ENG = Engine()


# ------------------------------------------------------------------------------------------------ helpers
def is_sym(x):
    return isinstance(x, Sym)


def as_z3_bool(x):
    if isinstance(x, SBool):
        return x.t
    if isinstance(x, z3.BoolRef):
        return x
    if isinstance(x, (bool,)):
        return z3.BoolVal(x)
    if type(x).__name__ == "bool_":
        return z3.BoolVal(builtins.bool(x))
    raise TypeError("not a boolean: %r" % (x,))


def float_to_fraction(x):
    """a concrete Python float met inside symbolic arithmetic was produced by float arithmetic on concrete small counts
    (e.g. tp / (tp + 0.5*fp + 0.5*fn)); floats are modelled as exact rationals, so recover the small rational it stands for"""
    f = Fraction(x)
    g = f.limit_denominator(1 << 20)
    if g == f or abs(builtins.float(g) - x) <= 4e-16 * max(1.0, abs(x)):
        return g
    return f


def zterm(x):
    """any scalar -> z3 term (Int, Real or Bool sort)"""
    if isinstance(x, Sym):
        return x.t
    if isinstance(x, z3.ExprRef):
        return x
    if isinstance(x, builtins.bool) or type(x).__name__ == "bool_":
        return z3.BoolVal(builtins.bool(x))
    if isinstance(x, builtins.int):
        return z3.IntVal(x)
    if isinstance(x, Fraction):
        return z3.RealVal(x)
    if isinstance(x, builtins.float):
        if x != x or x in (builtins.float("inf"), -builtins.float("inf")):
            raise Unsupported("non-finite float in symbolic arithmetic")
        return z3.RealVal(float_to_fraction(x))
    tn = type(x).__module__
    if tn == "numpy":
        import numpy as _np
        if isinstance(x, _np.integer):
            return z3.IntVal(builtins.int(x))
        if isinstance(x, _np.floating):
            return zterm(builtins.float(x))
    raise TypeError("cannot convert %r to a z3 term" % (x,))


def to_real(t):
    if t.sort() == INT:
        return z3.ToReal(t)
    if t.sort() == BOOL:
        return z3.If(t, z3.RealVal(1), z3.RealVal(0))
    return t


def to_int(t):
    if t.sort() == BOOL:
        return z3.If(t, z3.IntVal(1), z3.IntVal(0))
    return t


def lift(t):
    """z3 term -> Python value if it is a literal, else the (simplified) term"""
    t = z3.simplify(t)
    if z3.is_int_value(t):
        return t.as_long()
    if z3.is_true(t):
        return True
    if z3.is_false(t):
        return False
    if z3.is_rational_value(t):
        return Fraction(t.numerator_as_long(), t.denominator_as_long())
    return t


def py_value(v):
    """model value -> python"""
    if z3.is_int_value(v):
        return v.as_long()
    if z3.is_true(v):
        return True
    if z3.is_false(v):
        return False
    if z3.is_rational_value(v):
        return Fraction(v.numerator_as_long(), v.denominator_as_long())
    if z3.is_algebraic_value(v):
        return builtins.float(v.approx(20).as_fraction())
    raise TypeError("model value %r" % (v,))


# ------------------------------------------------------------------------------------------------ intervals
VAR_BOUNDS = {}      # z3 const name -> (lo, hi)   (declared by harnesses for their input variables)
_ival_cache = {}


def declare_bounds(var, lo, hi):
    name = str(var)
    old = VAR_BOUNDS.get(name)
    if old is not None and old != (lo, hi):
        # same-named constant re-declared with other bounds (next case in the same worker): every cached interval of a
        # compound term may be stale
        _ival_cache.clear()
        _itruth_cache.clear()
        for k, v in list(VAR_BOUNDS.items()):
            pass
    VAR_BOUNDS[name] = (lo, hi)
    _ival_cache[var.get_id()] = (var, (lo, hi))


def reset_bounds():
    VAR_BOUNDS.clear()
    _ival_cache.clear()
    _itruth_cache.clear()


def interval(t):
    """conservative integer interval of an Int/Bool term, or None if unknown"""
    if isinstance(t, builtins.bool):
        return (int(t), int(t))
    if isinstance(t, builtins.int):
        return (t, t)
    if not isinstance(t, z3.ExprRef):
        return None
    key = t.get_id()
    hit = _ival_cache.get(key)
    if hit is not None and hit[0].eq(t):
        return hit[1]
    r = _interval(t)
    _ival_cache[key] = (t, r)
    return r


def _interval(t):
    if z3.is_int_value(t):
        v = t.as_long()
        return (v, v)
    if t.sort() == BOOL:
        if z3.is_true(t):
            return (1, 1)
        if z3.is_false(t):
            return (0, 0)
        return (0, 1)
    if t.sort() != INT:
        return None
    k = t.decl().kind()
    ch = t.children()
    if k == z3.Z3_OP_UNINTERPRETED and not ch:
        return VAR_BOUNDS.get(str(t))
    if k == z3.Z3_OP_ADD:
        lo = hi = 0
        for c in ch:
            i = interval(c)
            if i is None:
                return None
            lo += i[0]
            hi += i[1]
        return (lo, hi)
    if k == z3.Z3_OP_SUB:
        i = interval(ch[0])
        if i is None:
            return None
        lo, hi = i
        for c in ch[1:]:
            j = interval(c)
            if j is None:
                return None
            lo, hi = lo - j[1], hi - j[0]
        return (lo, hi)
    if k == z3.Z3_OP_UMINUS:
        i = interval(ch[0])
        return None if i is None else (-i[1], -i[0])
    if k == z3.Z3_OP_MUL:
        cur = (1, 1)
        for c in ch:
            i = interval(c)
            if i is None:
                return None
            ps = [cur[0] * i[0], cur[0] * i[1], cur[1] * i[0], cur[1] * i[1]]
            cur = (min(ps), max(ps))
        return cur
    if k == z3.Z3_OP_ITE:
        a, b = interval(ch[1]), interval(ch[2])
        if a is None or b is None:
            return None
        return (min(a[0], b[0]), max(a[1], b[1]))
    if k == z3.Z3_OP_MOD:
        m = interval(ch[1])
        if m is not None and m[0] > 0:
            a = interval(ch[0])
            if a is not None and a[0] >= 0 and a[1] < m[0]:
                return a
            return (0, m[1] - 1)
        return None
    if k == z3.Z3_OP_IDIV:
        a, m = interval(ch[0]), interval(ch[1])
        if a is not None and m is not None and m[0] > 0 and a[0] >= 0:
            return (a[0] // m[1], a[1] // m[0])
        return None
    return None


_itruth_cache = {}


def int_view(t):
    """Int term equal to the Real term t when t is structurally integer-valued (sums/products of ToReal(int) and integral numerals)"""
    t = z3.simplify(t)
    if t.sort() == INT:
        return t
    if z3.is_rational_value(t):
        return z3.IntVal(t.numerator_as_long()) if t.denominator_as_long() == 1 else None
    k = t.decl().kind()
    if k == z3.Z3_OP_TO_REAL:
        return t.arg(0)
    if k in (z3.Z3_OP_ADD, z3.Z3_OP_MUL, z3.Z3_OP_SUB, z3.Z3_OP_UMINUS):
        parts = [int_view(c) for c in t.children()]
        if any(p is None for p in parts):
            return None
        if k == z3.Z3_OP_ADD:
            return z3.Sum(parts)
        if k == z3.Z3_OP_MUL:
            r = parts[0]
            for p in parts[1:]:
                r = r * p
            return r
        if k == z3.Z3_OP_SUB:
            r = parts[0]
            for p in parts[1:]:
                r = r - p
            return r
        return -parts[0]
    if k == z3.Z3_OP_ITE:
        a, b = int_view(t.arg(1)), int_view(t.arg(2))
        return None if a is None or b is None else z3.If(t.arg(0), a, b)
    return None


def interval_truth(c):
    """True/False if the interval pass decides the Boolean term c, else None"""
    key = c.get_id()
    hit = _itruth_cache.get(key)
    if hit is not None and hit[0].eq(c):
        return hit[1]
    r = _interval_truth(c)
    if len(_itruth_cache) > 300000:
        _itruth_cache.clear()
    _itruth_cache[key] = (c, r)
    return r


def _interval_truth(c):
    k = c.decl().kind()
    ch = c.children()
    if k == z3.Z3_OP_NOT:
        r = interval_truth(ch[0])
        return None if r is None else (not r)
    if k in (z3.Z3_OP_LE, z3.Z3_OP_LT, z3.Z3_OP_GE, z3.Z3_OP_GT, z3.Z3_OP_EQ) and ch[0].sort() == INT:
        a, b = interval(ch[0]), interval(ch[1])
        if a is None or b is None:
            return None
        if k == z3.Z3_OP_GE:
            a, b, k = b, a, z3.Z3_OP_LE
        elif k == z3.Z3_OP_GT:
            a, b, k = b, a, z3.Z3_OP_LT
        if k == z3.Z3_OP_LE:
            return True if a[1] <= b[0] else (False if a[0] > b[1] else None)
        if k == z3.Z3_OP_LT:
            return True if a[1] < b[0] else (False if a[0] >= b[1] else None)
        if a[1] < b[0] or b[1] < a[0]:
            return False
        if a[0] == a[1] == b[0] == b[1]:
            return True
        return None
    if k == z3.Z3_OP_AND:
        rs = [interval_truth(x) for x in ch]
        if any(r is False for r in rs):
            return False
        return True if all(r is True for r in rs) else None
    if k == z3.Z3_OP_OR:
        rs = [interval_truth(x) for x in ch]
        if any(r is True for r in rs):
            return True
        return False if all(r is False for r in rs) else None
    return None


# ------------------------------------------------------------------------------------------------ proxies
class Sym:
    __slots__ = ()


class SBool(Sym):
    __slots__ = ("t",)

    def __init__(self, t):
        if isinstance(t, builtins.bool):
            t = z3.BoolVal(t)
        self.t = t

    def __bool__(self):
        return ENG.branch(self.t)

    def __and__(self, o):
        return SBool(z3.And(self.t, as_z3_bool(o)))

    __rand__ = __and__

    def __or__(self, o):
        return SBool(z3.Or(self.t, as_z3_bool(o)))

    __ror__ = __or__

    def __xor__(self, o):
        return SBool(z3.Xor(self.t, as_z3_bool(o)))

    __rxor__ = __xor__

    def __invert__(self):
        return SBool(z3.Not(self.t))

    def __eq__(self, o):
        try:
            return SBool(self.t == as_z3_bool(o))
        except TypeError:
            return SNum(to_int(self.t)) == o

    def __ne__(self, o):
        return ~(self == o)

    def __hash__(self):
        return 0

    def __int__(self):
        return SNum(to_int(self.t))

    def __add__(self, o):
        return SNum(to_int(self.t)) + o

    __radd__ = __add__

    def __mul__(self, o):
        return SNum(to_int(self.t)) * o

    __rmul__ = __mul__

    def __repr__(self):
        return "SBool(%s)" % z3.simplify(self.t)


_INF = builtins.float("inf")
_OPS = {"eq": lambda a, b: a == b, "ne": lambda a, b: a != b, "lt": lambda a, b: a < b,
        "le": lambda a, b: a <= b, "gt": lambda a, b: a > b, "ge": lambda a, b: a >= b}
_INT_KINDS = {"uint8": (8, False), "uint16": (16, False), "uint32": (32, False), "uint64": (64, False),
              "int8": (8, True), "int16": (16, True), "int32": (32, True), "int64": (64, True)}


def dtype_name(dt):
    if dt is None:
        return None
    return getattr(dt, "name", None) or builtins.str(dt)


def wrap_int(t, dtname):
    """reduce an Int term into the value range of the fixed-width dtype (numpy wrap-around)"""
    w, signed = _INT_KINDS[dtname]
    m = 2 ** w
    if isinstance(t, builtins.int):
        r = t % m
        return r - m if signed and r >= m // 2 else r
    if signed:
        half = m // 2
        return (t + half) % m - half
    return t % m


def wrap_int_checked(t, dtname):
    """wrap unless the interval pass proves that the value already fits"""
    if isinstance(t, builtins.int):
        return wrap_int(t, dtname)
    w, signed = _INT_KINDS[dtname]
    lo, hi = (-(2 ** (w - 1)), 2 ** (w - 1) - 1) if signed else (0, 2 ** w - 1)
    iv = interval(t)
    if iv is not None and lo <= iv[0] and iv[1] <= hi:
        return t
    return wrap_int(t, dtname)


def _scalar_result_dtype(a_dt, a_sort, b_dt, b_sort):
    """numpy 1.26 scalar-scalar promotion; python ints count as int64, python floats as float64"""
    import numpy as _np
    if a_dt is None and b_dt is None:
        return None
    da = _np.dtype(a_dt) if a_dt is not None else (_np.dtype("float64") if a_sort == REAL else _np.dtype("int64"))
    db = _np.dtype(b_dt) if b_dt is not None else (_np.dtype("float64") if b_sort == REAL else _np.dtype("int64"))
    return _np.result_type(da, db)


class SNum(Sym):
    """symbolic number: Python int/float when dtype is None, otherwise a numpy scalar of that dtype.

    float64 values are modelled as exact reals (see DESIGN 2.3)."""
    __slots__ = ("t", "dtype")

    def __init__(self, t, dtype=None):
        if not isinstance(t, z3.ExprRef):
            t = zterm(t)
        if t.sort() == BOOL:
            t = to_int(t)
        self.t = t
        self.dtype = dtype

    # -- classification
    @property
    def is_real(self):
        return self.t.sort() == REAL

    def concrete(self):
        v = z3.simplify(self.t)
        if z3.is_int_value(v):
            return v.as_long()
        if z3.is_rational_value(v):
            return Fraction(v.numerator_as_long(), v.denominator_as_long())
        return None

    # -- arithmetic
    def _coerce(self, o):
        if isinstance(o, SBool):
            o = SNum(to_int(o.t))
        if isinstance(o, SNum):
            return o
        if o is None:
            return None
        try:
            t = zterm(o)
        except TypeError:
            return None
        dt = None
        if type(o).__module__ == "numpy":
            dt = o.dtype
        if t.sort() == BOOL:
            t = to_int(t)
        return SNum(t, dt)

    def _res(self, t, o):
        dt = _scalar_result_dtype(self.dtype, self.t.sort(), o.dtype, o.t.sort())
        if dt is not None:
            n = dt.name
            if n in _INT_KINDS:
                if t.sort() == REAL:
                    raise Unsupported("real value in integer dtype")
                t = wrap_int_checked(t, n)
            elif n.startswith("float"):
                t = to_real(t)
        return SNum(z3.simplify(t), dt)

    def _bin(self, o, f, rev=False):
        if isinstance(o, builtins.float) and (o != o or o in (_INF, -_INF)):
            c = self.concrete()
            if c is not None:
                x, y = (o, builtins.float(c)) if rev else (builtins.float(c), o)
                return f(x, y)
            if o != o:
                return o
            raise Unsupported("arithmetic of a symbolic value with an infinite constant")
        o = self._coerce(o)
        if o is None:
            return NotImplemented
        a, b = (o, self) if rev else (self, o)
        ta, tb = a.t, b.t
        if ta.sort() != tb.sort():
            ta, tb = to_real(ta), to_real(tb)
        # float64 result forces reals
        dt = _scalar_result_dtype(a.dtype, a.t.sort(), b.dtype, b.t.sort())
        if dt is not None and dt.name.startswith("float"):
            ta, tb = to_real(ta), to_real(tb)
        return a._res(f(ta, tb), b)

    def __add__(self, o): return self._bin(o, lambda a, b: a + b)
    def __radd__(self, o): return self._bin(o, lambda a, b: a + b, True)
    def __sub__(self, o): return self._bin(o, lambda a, b: a - b)
    def __rsub__(self, o): return self._bin(o, lambda a, b: a - b, True)
    def __mul__(self, o): return self._bin(o, lambda a, b: a * b)
    def __rmul__(self, o): return self._bin(o, lambda a, b: a * b, True)

    def _div(self, o, rev=False):
        if isinstance(o, builtins.float) and (o != o or o in (_INF, -_INF)):
            c = self.concrete()
            if o != o:
                return o
            if c is not None and c != 0:
                return (o / builtins.float(c)) if rev else 0.0 * (1 if (c > 0) == (o > 0) else -1)
            raise Unsupported("division involving an infinite constant")
        o = self._coerce(o)
        if o is None:
            return NotImplemented
        a, b = (o, self) if rev else (self, o)
        numpyish = a.dtype is not None or b.dtype is not None
        if SBool(b.t == 0):
            if not numpyish:
                raise ZeroDivisionError("division by zero")
            # numpy scalar division: nan for 0/0, +-inf otherwise (RuntimeWarning only)
            if SBool(a.t == 0):
                return builtins.float("nan")
            return builtins.float("inf") if SBool(a.t > 0) else -builtins.float("inf")
        if ENG.concretize_div:
            # quotient of two bounded integer counts (possibly already converted with float()): fork over the feasible
            # (numerator, denominator) values so that every score is a concrete rational on the path and all later
            # comparisons are decided without NIA
            at = a.t if a.t.sort() == INT else int_view(a.t)
            bt = b.t if b.t.sort() == INT else int_view(b.t)
            if at is not None and bt is not None:
                ia, ib = interval(at), interval(bt)
                if ia is not None and ib is not None and ia[1] - ia[0] <= ENG.concretize_div and ib[1] - ib[0] <= ENG.concretize_div:
                    bv = ENG.concretize(bt, ib[0], ib[1])
                    av = ENG.concretize(at, ia[0], ia[1])
                    return SNum(z3.RealVal(Fraction(av, bv)), None if not numpyish else "float64")
        t = to_real(a.t) / to_real(b.t)
        return SNum(z3.simplify(t), None if not numpyish else "float64")

    def __truediv__(self, o): return self._div(o)
    def __rtruediv__(self, o): return self._div(o, True)

    def _floordivmod(self, o, mod, rev=False):
        o = self._coerce(o)
        if o is None:
            return NotImplemented
        a, b = (o, self) if rev else (self, o)
        if a.is_real or b.is_real:
            # float floor-div/mod of integer-valued floats (uint64 route): require integrality and do it on Ints
            ia, ib = z3.ToInt(to_real(a.t)), z3.ToInt(to_real(b.t))
            if not SBool(z3.And(z3.ToReal(ia) == to_real(a.t), z3.ToReal(ib) == to_real(b.t))):
                raise Unsupported("non-integral float floor division")
            if not SBool(ib > 0):
                raise Unsupported("floor division by non-positive")
            r = (ia % ib) if mod else (ia / ib)
            return SNum(z3.simplify(z3.ToReal(r)), "float64" if (a.dtype is not None or b.dtype is not None) else None)
        if not SBool(b.t > 0):
            if SBool(b.t == 0):
                raise ZeroDivisionError("integer division or modulo by zero")
            raise Unsupported("floor division by negative")
        return a._res((a.t % b.t) if mod else (a.t / b.t), b)

    def __floordiv__(self, o): return self._floordivmod(o, False)
    def __rfloordiv__(self, o): return self._floordivmod(o, False, True)
    def __mod__(self, o): return self._floordivmod(o, True)
    def __rmod__(self, o): return self._floordivmod(o, True, True)

    def __neg__(self): return SNum(z3.simplify(-self.t), self.dtype)
    def __pos__(self): return self
    def __abs__(self): return SNum(z3.simplify(z3.If(self.t >= 0, self.t, -self.t)), self.dtype)

    def __pow__(self, o):
        if o == 2:
            return self * self
        raise Unsupported("pow")

    # -- comparisons
    def _cmp(self, o, op):
        if isinstance(o, builtins.float) and (o != o or o in (_INF, -_INF)):
            if o != o:
                return op == "ne"
            if o > 0:
                return op in ("lt", "le", "ne")
            return op in ("gt", "ge", "ne")
        o2 = self._coerce(o)
        if o2 is None:
            return NotImplemented
        ta, tb = self.t, o2.t
        if ta.sort() != tb.sort():
            ta, tb = to_real(ta), to_real(tb)
        return SBool(z3.simplify(_OPS[op](ta, tb)))

    def __eq__(self, o):
        r = self._cmp(o, "eq")
        return False if r is NotImplemented else r

    def __ne__(self, o):
        r = self._cmp(o, "ne")
        return True if r is NotImplemented else r

    def __lt__(self, o): return self._cmp(o, "lt")
    def __le__(self, o): return self._cmp(o, "le")
    def __gt__(self, o): return self._cmp(o, "gt")
    def __ge__(self, o): return self._cmp(o, "ge")

    def __bool__(self):
        return ENG.branch(self.t != 0)

    def __hash__(self):
        # dict/set keys: a symbolic key and a concrete key must collide exactly when they are equal.
        # Default: fork over the feasible values (sound for small domains).  Layer-A harnesses, in which every
        # label is symbolic, switch to a constant hash (ENG.const_hash) so that equality decides.
        if ENG.const_hash:
            return 0
        v = self.concrete()
        if v is None:
            if self.is_real:
                raise Unsupported("symbolic real used as a dict key")
            iv = interval(self.t)
            if iv is not None and iv[1] - iv[0] <= 64:
                v = ENG.concretize(self.t, iv[0], iv[1])
            else:
                v = ENG.concretize(self.t)
        return hash(v)

    def __index__(self):
        v = self.concrete()
        if isinstance(v, builtins.int):
            return v
        raise Unsupported("symbolic value used as an index: %r" % (self,))

    def __int__(self):
        v = self.concrete()
        if isinstance(v, builtins.int):
            return v
        raise Unsupported("int() on symbolic value outside the twin")

    def __float__(self):
        v = self.concrete()
        if v is not None:
            return builtins.float(v)
        raise Unsupported("float() on symbolic value outside the twin")

    def __round__(self, n=None):
        raise Unsupported("round")

    def __repr__(self):
        return "SNum(%s%s)" % (z3.simplify(self.t), "" if self.dtype is None else ":" + dtype_name(self.dtype))


# ------------------------------------------------------------------------------------------------ builtin shadows
class _IntMeta(type):
    def __instancecheck__(cls, x):
        if isinstance(x, builtins.int):
            return True
        return isinstance(x, SNum) and x.dtype is None and not x.is_real

    def __call__(cls, x=0, *a):
        if isinstance(x, SBool):
            return SNum(to_int(x.t))
        if isinstance(x, SNum):
            if x.is_real:
                c = x.concrete()
                if c is not None:
                    return builtins.int(c)
                # truncation toward zero of a real
                t = x.t
                fl = z3.ToInt(t)
                return SNum(z3.simplify(z3.If(t >= 0, fl, -z3.ToInt(-t))))
            return SNum(x.t)
        return builtins.int(x, *a)


class sym_int(metaclass=_IntMeta):
    pass


class _FloatMeta(type):
    def __instancecheck__(cls, x):
        if isinstance(x, builtins.float):
            return True
        return isinstance(x, SNum) and x.is_real

    def __call__(cls, x=0.0):
        if hasattr(x, "__symfloat__"):
            return cls(x.__symfloat__())      # text that the file model wrote for a number
        if isinstance(x, SBool):
            return SNum(to_real(x.t))
        if isinstance(x, SNum):
            return SNum(to_real(x.t))
        return builtins.float(x)


class sym_float(metaclass=_FloatMeta):
    pass


def sym_max(*args, **kw):
    return builtins.max(*args, **kw)


def sym_abs(x):
    return abs(x)
