"""Real-package side helpers: run the public API on concrete cases and evaluate plain-Python oracles.

`reference_pipeline` is an independent, deliberately naive implementation of the documented definitions
(connected components, best-first one-to-one matching, metrics.md formulas) on voxel sets with exact fractions;
it is used only to judge *concrete* replays (witnesses and solver-found counterexamples), never to decide a property.
"""
from __future__ import annotations

import itertools
import math
from fractions import Fraction

from .common import fl, close


# ------------------------------------------------------------------------------------------------ geometry
def coords(shape):
    return list(itertools.product(*[range(s) for s in shape]))


def neighbours(c, shape, full):
    nd = len(shape)
    for d in itertools.product((-1, 0, 1), repeat=nd):
        nz = sum(1 for x in d if x)
        if nz == 0 or (not full and nz != 1):
            continue
        q = tuple(a + b for a, b in zip(c, d))
        if all(0 <= x < s for x, s in zip(q, shape)):
            yield q


def components(arr, full, distinguish):
    """connected components of the non-zero voxels: list of sets of coordinates"""
    import numpy as np
    a = np.asarray(arr)
    seen = set()
    comps = []
    for c in coords(a.shape):
        if a[c] == 0 or c in seen:
            continue
        comp = {c}
        seen.add(c)
        stack = [c]
        while stack:
            x = stack.pop()
            for q in neighbours(x, a.shape, full):
                if q in seen or a[q] == 0:
                    continue
                if distinguish and a[q] != a[x]:
                    continue
                seen.add(q)
                comp.add(q)
                stack.append(q)
        comps.append(comp)
    return comps


def instances(arr):
    import numpy as np
    a = np.asarray(arr)
    out = {}
    for c in coords(a.shape):
        v = int(a[c])
        if v != 0:
            out.setdefault(v, set()).add(c)
    return out


def border(S, shape):
    return {c for c in S if any((q not in S) for q in _face_nb_all(c, len(shape)))}


def _face_nb_all(c, nd):
    for ax in range(nd):
        for d in (-1, 1):
            yield tuple(x + (d if i == ax else 0) for i, x in enumerate(c))


def assd(X, Y, shape):
    """float ASSD straight from the statement (border = foreground voxel with a background or out-of-array face neighbour)"""
    bx, by = border(X, shape), border(Y, shape)

    def asd(A, B):
        return sum(min(math.sqrt(sum((p - q) ** 2 for p, q in zip(a, b))) for b in B) for a in A) / len(A)
    return (asd(bx, by) + asd(by, bx)) / 2


def score(metric, R, P, shape):
    if metric == "IOU":
        u = len(R | P)
        return Fraction(len(R & P), u) if u else Fraction(0)
    if metric == "DSC":
        s = len(R) + len(P)
        return Fraction(2 * len(R & P), s) if s else Fraction(0)
    if metric == "RVD":
        return Fraction(len(P) - len(R), len(R))
    if metric == "ASSD":
        return assd(R, P, shape)
    raise ValueError(metric)


def thr_frac(t):
    """the rational a float threshold stands for (the solver picks e.g. exactly 1/5; float(1/5) compares equal to the library's
    correctly rounded score 1/5, so the oracle must compare against 1/5 and not against the binary expansion of 0.2)"""
    if isinstance(t, Fraction):
        return t
    f = Fraction(t)
    g = f.limit_denominator(1 << 20)
    return g if abs(float(g) - float(t)) <= 4e-16 * max(1.0, abs(float(t))) else f


def beats(metric, s, thr):
    return s <= thr if metric in ("ASSD", "RVD") else s >= thr


# ------------------------------------------------------------------------------------------------ reference pipeline
def reference_pipeline(pred, ref, cfg):
    """documented procedure on concrete arrays -> dict(n_pred, n_ref, tp, fp, fn, lists{metric: sorted values}, unique: bool)

    cfg: input_type in {SEMANTIC, UNMATCHED_INSTANCE, MATCHED_INSTANCE}; backend in {None, cc3d, scipy};
    matching_metric, matching_threshold; decision_metric (or None), decision_threshold; metrics: list of names."""
    import numpy as np
    pred, ref = np.asarray(pred), np.asarray(ref)
    shape = ref.shape
    it = cfg["input_type"]
    if it == "SEMANTIC":
        backend = cfg.get("backend")
        if backend is None:
            backend = "cc3d" if ref.ndim >= 3 else "scipy"
        full = backend == "cc3d"
        Pi = {i + 1: c for i, c in enumerate(components(pred, full, full))}
        Ri = {i + 1: c for i, c in enumerate(components(ref, full, full))}
    else:
        Pi, Ri = instances(pred), instances(ref)
    unique = True
    if it == "MATCHED_INSTANCE":
        pairs = [(r, r) for r in sorted(Ri) if r in Pi]
    else:
        mm, thr = cfg["matching_metric"], thr_frac(cfg["matching_threshold"])
        cand = [(score(mm, Ri[r], Pi[p], shape), r, p) for r in Ri for p in Pi if Ri[r] & Pi[p]]
        # uniqueness clause: two competing (sharing an instance) eligible candidates with equal score
        for a, b in itertools.combinations(cand, 2):
            if a[0] == b[0] and (a[1] == b[1] or a[2] == b[2]) and beats(mm, a[0], thr):
                unique = False
        cand.sort(key=lambda x: x[0], reverse=mm not in ("ASSD", "RVD"))
        used_r, used_p, pairs = set(), set(), []
        for s, r, p in cand:
            if r in used_r or p in used_p or not beats(mm, s, thr):
                continue
            used_r.add(r)
            used_p.add(p)
            pairs.append((r, p))
    dm = cfg.get("decision_metric")
    if dm is not None:
        dthr = thr_frac(cfg["decision_threshold"]) if dm != "ASSD" else cfg["decision_threshold"]
        pairs = [(r, p) for r, p in pairs if beats(dm, score(dm, Ri[r], Pi[p], shape), dthr)]
    tp = len(pairs)
    lists = {m: sorted(score(m, Ri[r], Pi[p], shape) for r, p in pairs) for m in cfg.get("metrics", ["DSC", "IOU", "RVD"])}
    return {"n_pred": len(Pi), "n_ref": len(Ri), "tp": tp, "fp": len(Pi) - tp, "fn": len(Ri) - tp, "lists": lists, "unique": unique}


# ------------------------------------------------------------------------------------------------ running the real package
def build_evaluator(cfg):
    import panoptica
    from panoptica import (Panoptica_Evaluator, InputType, Metric, NaiveThresholdMatching, ConnectedComponentsInstanceApproximator, CCABackend)
    from panoptica.instance_matcher import MaximizeMergeMatching
    kw = {}
    kw["expected_input"] = getattr(InputType, cfg["input_type"])
    if cfg["input_type"] == "SEMANTIC":
        b = cfg.get("backend")
        kw["instance_approximator"] = ConnectedComponentsInstanceApproximator(None if b is None else getattr(CCABackend, b))
    if cfg["input_type"] != "MATCHED_INSTANCE":
        mcls = MaximizeMergeMatching if cfg.get("matcher") == "merge" else NaiveThresholdMatching
        args = dict(matching_metric=getattr(Metric, cfg["matching_metric"]), matching_threshold=cfg["matching_threshold"])
        if mcls is NaiveThresholdMatching:
            args["allow_many_to_one"] = cfg.get("many", False)
        kw["instance_matcher"] = mcls(**args)
    kw["instance_metrics"] = [getattr(Metric, m) for m in cfg.get("metrics", ["DSC", "IOU", "RVD"])]
    kw["global_metrics"] = [getattr(Metric, m) for m in cfg.get("global_metrics", ["DSC"])]
    if cfg.get("decision_metric") is not None:
        kw["decision_metric"] = getattr(Metric, cfg["decision_metric"])
        kw["decision_threshold"] = cfg["decision_threshold"]
    if cfg.get("edge_case_handler") is not None:
        kw["edge_case_handler"] = cfg["edge_case_handler"]
    return Panoptica_Evaluator(**kw)


def use_serial_pool(serial=True):
    import multiprocessing
    import panoptica._functionals as F
    import panoptica.instance_evaluator as IE
    from pv.stubs import SerialPool
    F.Pool = SerialPool if serial else multiprocessing.Pool
    IE.Pool = SerialPool if serial else multiprocessing.Pool


def result_to_dict(res, metrics):
    from panoptica import Metric, MetricMode
    out = {"tp": int(res.tp), "fp": int(res.fp), "fn": int(res.fn), "num_pred": int(res.num_pred_instances), "num_ref": int(res.num_ref_instances)}
    names = {"IOU": "", "DSC": "_dsc", "ASSD": "_assd", "RVD": "_rvd", "clDSC": "_cldsc"}
    for k in ("rq",):
        out[k] = _f(getattr(res, k))
    out["lists"] = {}
    for m in metrics:
        sfx = names[m]
        try:
            out["lists"][m] = [float(x) for x in res.get_list_metric(getattr(Metric, m), MetricMode.ALL)]
        except Exception as e:
            out["lists"][m] = "ERR %s" % e
        for stem in ("sq", "pq"):
            if stem == "pq" and m in ("ASSD", "RVD"):
                continue
            try:
                out[stem + sfx] = _f(getattr(res, stem + sfx))
            except Exception as e:
                out[stem + sfx] = "ERR %s" % type(e).__name__
        try:
            out["sq" + sfx + "_std"] = _f(getattr(res, "sq" + sfx + "_std"))
        except Exception as e:
            out["sq" + sfx + "_std"] = "ERR %s" % type(e).__name__
    return out


def _f(x):
    if x is None:
        return None
    x = float(x)
    if math.isnan(x):
        return {"float": "nan"}
    if math.isinf(x):
        return {"float": "inf" if x > 0 else "-inf"}
    return x


def num(x):
    if isinstance(x, dict):
        return float(x["float"])
    return x


def bookkeeping_oracle(o, metrics):
    """C02 on a result dictionary produced by result_to_dict: returns (obligation, text) or None"""
    tp, fp, fn = o["tp"], o["fp"], o["fn"]
    if tp + fp != o["num_pred"]:
        return "tp_fp_pred", "tp+fp=%d != predicted instances %d" % (tp + fp, o["num_pred"])
    if tp + fn != o["num_ref"]:
        return "tp_fn_ref", "tp+fn=%d != reference instances %d" % (tp + fn, o["num_ref"])
    for m in metrics:
        l = o["lists"][m]
        if isinstance(l, str):
            return "list_present", "list of %s: %s" % (m, l)
        if len(l) != tp:
            return "list_len_eq_tp", "%s list has %d entries, tp=%d" % (m, len(l), tp)
    if tp > 0:
        rq = num(o["rq"])
        if not close(rq, tp / (tp + 0.5 * fp + 0.5 * fn)):
            return "rq_definition", "rq=%r" % rq
        names = {"IOU": "", "DSC": "_dsc", "ASSD": "_assd", "RVD": "_rvd"}
        for m in metrics:
            if m not in names:
                continue
            l = o["lists"][m]
            sq = num(o["sq" + names[m]])
            mean = sum(l) / len(l)
            if not close(sq, mean):
                return "sq_is_mean", "sq%s=%r, mean of list=%r" % (names[m], sq, mean)
            sd = num(o["sq" + names[m] + "_std"])
            var = sum((x - mean) ** 2 for x in l) / len(l)
            if not close(sd, math.sqrt(var), 1e-7):
                return "sq_std_is_population_std", "sq%s_std=%r, population std=%r" % (names[m], sd, math.sqrt(var))
            if m in ("IOU", "DSC"):
                pq = num(o["pq" + names[m]])
                if not close(pq, sq * rq):
                    return "pq_is_sq_times_rq", "pq%s=%r sq*rq=%r" % (names[m], pq, sq * rq)
                if not (0 <= sq <= 1 and 0 <= pq <= 1 and 0 <= rq <= 1):
                    return "ranges", "sq%s=%r pq=%r rq=%r" % (names[m], sq, pq, rq)
        if "IOU" in metrics and "DSC" in metrics:
            if num(o["sq_dsc"]) < num(o["sq"]) - 1e-12:
                return "sq_dsc_ge_sq", "sq_dsc=%r < sq=%r" % (o["sq_dsc"], o["sq"])
    return None


def definition_oracle(o, want, metrics):
    """C01: compare the library's result with the reference pipeline (counts and per-TP value multisets)"""
    for k in ("tp", "fp", "fn"):
        if o[k] != want[k]:
            return "counts", "%s=%d, documented procedure gives %d" % (k, o[k], want[k])
    if o["num_pred"] != want["n_pred"] or o["num_ref"] != want["n_ref"]:
        return "instance_counts", "instances pred/ref %d/%d vs %d/%d" % (o["num_pred"], o["num_ref"], want["n_pred"], want["n_ref"])
    for m in metrics:
        got = o["lists"][m]
        if isinstance(got, str):
            return "per_tp_values", "%s: %s" % (m, got)
        w = [float(x) for x in want["lists"][m]]
        if len(got) != len(w) or any(not close(a, b, 1e-9) for a, b in zip(sorted(got), sorted(w))):
            return "per_tp_values", "%s values %s, documented procedure gives %s" % (m, sorted(got), sorted(w))
    return None
