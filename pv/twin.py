"""Twin loader: re-imports /repo/panoptica from the *current working tree* into a private module set whose
numpy / scipy.ndimage / cc3d / skimage / multiprocessing are model modules.

Nothing in sys.modules is touched.  Every twin module gets a private ``__builtins__`` dict whose ``__import__``
resolves ``panoptica*`` to twin modules (compiled from the files on disk at load time, optionally after an AST
rewrite) and the modelled dependencies to the model modules; ``int/float/print`` are shadowed there as well.
The real package stays importable side by side in the same process.
"""
from __future__ import annotations

import ast
import builtins
import hashlib
import os
import sys
import types

from . import sym, symnp, stubs

REPO = os.environ.get("PANOPTICA_REPO", "/repo")


class Twin:
    _count = 0

    def __init__(self, fakes=None, ast_transformers=(), extra_builtins=None, repo=None):
        self.repo = repo or REPO
        Twin._count += 1
        self.alias = "_twin%d" % Twin._count
        self.modules = {}
        self.sources = {}      # module name -> (path, sha256)
        self.ast_transformers = list(ast_transformers)
        self.np = symnp.build_module()
        self.fakes = stubs.default_fakes(self.np)
        if fakes:
            self.fakes.update(fakes)
        b = dict(builtins.__dict__)
        b["__import__"] = self._import
        b["int"] = sym.sym_int
        b["float"] = sym.sym_float
        b["print"] = lambda *a, **k: None
        if extra_builtins:
            b.update(extra_builtins)
        self.builtins = b
        os.environ["PANOPTICA_CITATION_REMINDER"] = "false"
        self.panoptica = self._load("panoptica")

    # ---------------------------------------------------------------- import machinery
    def _path_of(self, name):
        rel = name.replace(".", "/")
        pkg = os.path.join(self.repo, rel, "__init__.py")
        if os.path.exists(pkg):
            return pkg, True
        mod = os.path.join(self.repo, rel + ".py")
        if os.path.exists(mod):
            return mod, False
        raise ModuleNotFoundError("No module named %r (twin of %s)" % (name, self.repo))

    def _load(self, name):
        if name in self.modules:
            return self.modules[name]
        if "." in name:
            parent = name.rsplit(".", 1)[0]
            self._load(parent)
        path, is_pkg = self._path_of(name)
        src = open(path, "rb").read()
        self.sources[name] = (path, hashlib.sha256(src).hexdigest())
        tree = ast.parse(src, filename=path)
        for tr in self.ast_transformers:
            tree = tr.visit(tree)
            ast.fix_missing_locations(tree)
        code = compile(tree, path, "exec")
        # dataclasses / enum look their defining module up in sys.modules by cls.__module__: register the twin
        # module under a private alias so that the real package can live side by side
        alias = "%s.%s" % (self.alias, name)
        m = types.ModuleType(alias)
        sys.modules[alias] = m
        m.__file__ = path
        m.__dict__["__builtins__"] = self.builtins
        if is_pkg:
            m.__path__ = [os.path.dirname(path)]
            m.__package__ = name
        else:
            m.__package__ = name.rsplit(".", 1)[0]
        self.modules[name] = m
        try:
            exec(code, m.__dict__)
        except BaseException:
            del self.modules[name]
            raise
        if "." in name:
            parent, leaf = name.rsplit(".", 1)
            setattr(self.modules[parent], leaf, m)
        return m

    def _import(self, name, globals=None, locals=None, fromlist=(), level=0):
        if level:
            pkg = (globals or {}).get("__package__") or ""
            base = pkg.rsplit(".", level - 1)[0] if level > 1 else pkg
            name = base + ("." + name if name else "")
        top = name.split(".")[0]
        if top == "panoptica":
            m = self._load(name)
            if fromlist:
                for f in fromlist:
                    if f != "*" and not hasattr(m, f):
                        try:
                            self._load(name + "." + f)
                        except ModuleNotFoundError:
                            pass
                return m
            return self._load(top)
        if name in self.fakes:
            if fromlist:
                return self.fakes[name]
            return self.fakes.get(top) or self.fakes[name]
        return builtins.__import__(name, globals, locals, fromlist, 0)

    # ---------------------------------------------------------------- convenience
    def mod(self, name):
        return self._load(name)

    def source_digest(self):
        return {n: {"file": p, "sha256": h} for n, (p, h) in sorted(self.sources.items())}


_default = None


def get_twin(**kw):
    """one shared default twin per process (loading takes ~0.3 s)"""
    global _default
    if kw:
        return Twin(**kw)
    if _default is None:
        _default = Twin()
    return _default
