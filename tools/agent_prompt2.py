#!/usr/bin/env python3
import json, sys, os, glob
pid, wt = sys.argv[1], sys.argv[2]
base = open('/verif/tools/agent_prompt.py').read()
import subprocess
txt = subprocess.check_output(['python3', '/verif/tools/agent_prompt.py', pid, wt]).decode()
tried = []
for d in sorted(glob.glob('/verif/seeded/%s_*' % pid)):
    n = os.path.join(d, 'note.txt')
    if os.path.exists(n):
        tried.append('- ' + ' '.join(open(n).read().split())[:260])
extra = "\n\nChanges of this kind have ALREADY been tried by others for this property - do not repeat them, find different ones (other functions, other mechanisms, preferably ones that need a multi-step sequence, an unusual option combination, or two cooperating sites):\n" + "\n".join(tried) + "\n"
print(txt + extra)
