#!/bin/bash
# tools/matrix.sh : run every seeded change against the check of its own property (quick tier); results in /verif/seeded/matrix.txt
cd /verif
: > seeded/matrix.txt
for d in seeded/C*_a*; do
  sid=$(basename $d); prop=${sid%%_*}
  s=$(date +%s)
  out=$(LINES_OUT=40 timeout 1500 tools/mut.sh $d/patch.diff $prop quick 2>&1)
  rc=$(echo "$out" | grep -o "exit=[0-9]*" | tail -1)
  viol=$(echo "$out" | grep "obligation=" | head -1 | cut -c1-220)
  e=$(date +%s)
  echo "$sid check=$prop $rc $((e-s))s | $viol" | tee -a seeded/matrix.txt
  git -C /repo checkout -- . 2>/dev/null
done
