"""child process of the C17 replay: one aggregator session on the REAL package, killed (os._exit(9)) before operation `crash_at`"""
import builtins
import json
import os
import sys


def main():
    spec = json.loads(sys.argv[1])
    os.environ["PANOPTICA_CITATION_REMINDER"] = "false"
    devnull = open(os.devnull, "w")
    sys.stdout = devnull
    import panoptica.panoptica_aggregator as A
    from pv.harness import aggcommon as AC

    def before(k, name, arg):
        if k == spec["crash_at"]:
            os._exit(9)
    counter = AC.OpCounter(before)
    AC.instrument(A, counter, builtins.open)
    ev = AC.StubEvaluator()
    agg = A.Panoptica_Aggregator(ev, spec["out"])
    for s in spec["subjects"]:
        ev.current = s
        ev.current_value = (spec.get("values") or {}).get(s)
        agg.evaluate(None, None, s)
    counter.before = None       # crash points end with the last evaluate call; atexit handlers run normally
    sys.exit(0)


if __name__ == "__main__":
    main()
