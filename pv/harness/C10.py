"""C10 - results are invariant under padding, translation, flips and axis permutation (layer B, DESIGN 4/C10).

Symbolically executed (twin): _get_bbox_nd, _get_paired_crop, _ProcessingPair.crop_data, _evaluate_instance (crop), and - for the
embedding / symmetry two-run obligations - the whole Panoptica_Evaluator.evaluate pipeline on the original and on the transformed label maps.
"""
from __future__ import annotations

import itertools
from fractions import Fraction

import z3

from ..sym import ENG, SNum, SBool, EngineSignal, declare_bounds
from ..symnp import SArr, WriteToProtected, cnum
from ..run import H, explore_case, jsonable
from . import e2e
from . import realcommon as RC
from .common import fl, close

PROP = "C10"
METRICS = ["DSC", "IOU", "RVD"]
META = {
    "bounds": {"quick": "pair-object crop requested twice on 1-D 8 binary maps; bounding boxes of symbolic non-empty maps 1-D 5 and 2-D 2x3 with pad 0..2; per-instance crop vs. uncropped kernels on 1-D 8 binary maps; embedding of 1-D 3 maps into length 6 at every offset and of 1x3 into 2x4; "
                        "reversal of 1-D 3 maps, transposition / flip of 1x3 maps and one slice of the 2x2 transposition cases through the whole pipeline (unmatched input, free matching threshold); ASSD kernel of 1-D 3 masks vs. the masks embedded in length 5 at a symbolic offset",
               "thorough": "bounding boxes 3x3 and 2x2x2; crop on 1-D 10; embeddings of 1-D 4 and of 2x2 into 3x3; reversal of 1-D 4 and transposition / both flips of 2x2 maps"},
    "stubs": ["multiprocessing.Pool := serial"],
    "assumptions": ["memory layout (C / Fortran order, negative strides) has no counterpart in the array model: not decidable by this technique; replays run every witness additionally as non-contiguous views on the real package",
                    "ASSD under embedding is decided on the kernel alone (1-D 3 in 5/6 at a symbolic offset), not through the whole pipeline", "paths with tied competing candidates are excluded"],
    "nontrivial_rule": "paths with at least one true positive whose instance touches the array border",
}


def cases(tier):
    out = []
    for shp in ([(5,), (2, 3)] if tier == "quick" else [(5,), (3, 3), (2, 2, 2)]):
        out.append({"name": "bbox_%s" % "x".join(map(str, shp)), "what": "bbox", "shape": shp})
    # the pair object's own crop, asked for twice (e.g. two evaluation passes over one pair object): idempotent, and no foreground voxel is
    # lost wherever the foreground lies in the array (the second request must not re-apply original-array coordinates)
    out.append({"name": "pair_crop_twice_1d_%d" % (8 if tier == "quick" else 10), "what": "paircrop", "shape": (8 if tier == "quick" else 10,)})
    N = 8 if tier == "quick" else 10
    for f in range(4):
        out.append({"name": "instance_crop_1d_%d_f%d" % (N, f), "what": "crop", "shape": (N,), "fix": f})
    out.append({"name": "instance_crop_2x3", "what": "crop", "shape": (2, 3), "fix": None})
    n1 = 3 if tier == "quick" else 4
    for off in range(0, 4):
        out.append({"name": "embed_1d_%d_off%d" % (n1, off), "what": "embed", "shape": (n1,), "big": (n1 + 3,), "offset": (off,)})
    out.append({"name": "assd_embed_1d", "what": "assd_embed", "n": 3, "N": 5 if tier == "quick" else 6})
    # semantic input (instances approximated first): a one-slice volume vs. the same volume padded along its singleton axis
    for off in ((1,) if tier == "quick" else (0, 1)):
        out.append({"name": "embed_semantic_1x1x3_in_2x1x3_off%d" % off, "what": "embed", "shape": (1, 1, 3), "big": (2, 1, 3), "offset": (off, 0, 0), "input_type": "SEMANTIC"})
    if tier == "quick":
        # one slice of the 2x2 transposition cases of the thorough tier (first voxels fixed to 1/1): its witnesses are the ones replayed
        # under mixed memory layouts on the real package
        out.append({"name": "sym_2x2_transpose_f4", "what": "sym", "shape": (2, 2), "op": "transpose", "fix2": [1, 1]})
        # three voxels per map: 1-D reversal, embedding of a 1x3 map into 2x4, and axis permutation / flips of a 1x3 map
        out.append({"name": "embed_1x3_in_2x4", "what": "embed", "shape": (1, 3), "big": (2, 4), "offset": (1, 1)})
        out.append({"name": "reverse_1d", "what": "sym", "shape": (3,), "op": "flip0"})
        for op in ("transpose", "flip1"):
            out.append({"name": "sym_1x3_%s" % op, "what": "sym", "shape": (1, 3), "op": op})
    else:
        for off in itertools.product(range(2), repeat=2):
            for f in range(9):
                out.append({"name": "embed_2x2_off%d%d_f%d" % (off + (f,)), "what": "embed", "shape": (2, 2), "big": (3, 3), "offset": off, "fix2": [f // 3, f % 3]})
        for f in range(9):
            out.append({"name": "reverse_1d_f%d" % f, "what": "sym", "shape": (4,), "op": "flip0", "fix2": [f // 3, f % 3]})
            for op in ("transpose", "flip0", "flip1"):
                out.append({"name": "sym_2x2_%s_f%d" % (op, f), "what": "sym", "shape": (2, 2), "op": op, "fix2": [f // 3, f % 3]})
    return out


def coords(shape):
    return list(itertools.product(*[range(s) for s in shape]))


def transform(cells, shape, op):
    """cells of the transformed array and its shape"""
    cs = coords(shape)
    pos = {c: i for i, c in enumerate(cs)}
    if op == "transpose":
        nshape = tuple(reversed(shape))
        return [cells[pos[tuple(reversed(c))]] for c in coords(nshape)], nshape
    ax = int(op[-1])
    return [cells[pos[tuple((shape[k] - 1 - x) if k == ax else x for k, x in enumerate(c))]] for c in cs], shape


def embed(cells, shape, big, offset):
    cs = coords(shape)
    pos = {c: i for i, c in enumerate(cs)}
    out = []
    for c in coords(big):
        q = tuple(x - o for x, o in zip(c, offset))
        out.append(cells[pos[q]] if q in pos else 0)
    return out


def run_case(case):
    if case["what"] == "assd_embed":
        # the ASSD code path alone vs. the same masks zero-padded at a symbolic offset: C07's embedding harness, reported under this property
        from . import C07
        C07.PROP = PROP
        return C07.run_case(dict(case, what="embed"))
    from ..twin import get_twin
    T = get_twin()
    NU = T.mod("panoptica.utils.numpy_utils")
    IE = T.mod("panoptica.instance_evaluator")
    Metric = T.panoptica.Metric
    what = case["what"]
    shape = tuple(case["shape"])

    if what == "bbox":
        n = len(coords(shape))
        iv = [z3.Int("v%d" % i) for i in range(n)]
        px = z3.Int("px")
        base = [z3.And(v >= 0, v <= 1) for v in iv] + [z3.Or([v != 0 for v in iv]), px >= 0, px <= 2]
        for v in iv:
            declare_bounds(v, 0, 1)
        declare_bounds(px, 0, 2)

        def decode(m):
            return {"what": "bbox", "shape": list(shape), "img": [jsonable(v, m) for v in iv], "px": jsonable(px, m)}
        h = H(PROP, case["name"], decode, replay_kind="bbox", max_witnesses=40)

        def body():
            pad = ENG.concretize(px, 0, 2)
            try:
                sl = NU._get_bbox_nd(SArr(list(iv), "uint8", shape), px_dist=pad)
            except EngineSignal:
                raise
            except Exception as e:
                h.fail("bbox_completes_for_non_empty_image", detail="%s: %s" % (type(e).__name__, str(e)[:120]))
                return
            cs = coords(shape)
            h.ok("one_slice_per_axis", len(sl) == len(shape))
            for ax in range(len(shape)):
                nz = [z3.Or([iv[i] != 0 for i, c in enumerate(cs) if c[ax] == k]) for k in range(shape[ax])]
                first = next(k for k in range(shape[ax]) if bool(SBool(nz[k])))
                last = next(k for k in reversed(range(shape[ax])) if bool(SBool(nz[k])))
                want = list(range(max(first - pad, 0), min(last + pad, shape[ax] - 1) + 1))
                got = list(range(*sl[ax].indices(shape[ax])))
                h.ok("box_is_tight_box_widened_by_pad_and_clipped", got == want, detail={"axis": ax, "got": [got[0], got[-1]] if got else [], "want": [want[0], want[-1]], "pad": pad})
                if first == 0 or last == shape[ax] - 1:
                    h.note_nontrivial((ax, first, last, pad))
            h.witness(expect=None)
        return explore_case(h, body, base=base, time_budget=3000)

    if what == "paircrop":
        pv, rv, base = e2e.sym_arrays(shape, 1, "uint8")
        base = base + [z3.Or([v != 0 for v in pv + rv])]

        def decode(m):
            return {"what": "paircrop", "shape": list(shape), "pred": [jsonable(v, m) for v in pv], "ref": [jsonable(v, m) for v in rv]}
        h = H(PROP, case["name"], decode, replay_kind="paircrop", max_witnesses=40)
        PPm = T.mod("panoptica.utils.processing_pair")

        def body():
            pa = SArr(list(pv), "uint8", shape).protect("caller prediction")
            ra = SArr(list(rv), "uint8", shape).protect("caller reference")
            try:
                pair = PPm.MatchedInstancePair(pa, ra)
                pair.crop_data()
                c1p, c1r = list(pair.prediction_arr.cells), list(pair.reference_arr.cells)
                pair.crop_data()
                c2p, c2r = list(pair.prediction_arr.cells), list(pair.reference_arr.cells)
            except EngineSignal:
                raise
            except WriteToProtected as e:
                h.fail("no_input_mutation", detail=str(e))
                return
            except Exception as e:
                h.fail("crop_completes", detail="%s: %s" % (type(e).__name__, str(e)[:120]))
                return
            cnt = lambda cells: z3.Sum([z3.If(cnum(c) != 0, 1, 0) for c in cells]) if cells else z3.IntVal(0)
            h.ok("crop_keeps_every_foreground_voxel", z3.And(cnt(c1p) == cnt(pv), cnt(c1r) == cnt(rv)))
            h.ok("second_crop_request_changes_nothing", len(c2p) == len(c1p) and len(c2r) == len(c1r) and z3.And([cnum(a) == cnum(b) for a, b in zip(c1p + c1r, c2p + c2r)] + [z3.BoolVal(True)]),
                 detail={"len_after_first": len(c1p), "len_after_second": len(c2p)})
            if len(c1p) < len(pv):
                h.note_nontrivial((len(c1p),))
            h.witness(expect=None)
        return explore_case(h, body, base=base, time_budget=3000)

    if what == "crop":
        pv, rv, base = e2e.sym_arrays(shape, 1, "uint8")
        if case.get("fix") is not None:
            base += [pv[0] == (case["fix"] & 1), rv[0] == (case["fix"] >> 1)]

        def decode(m):
            return {"what": "crop", "shape": list(shape), "pred": [jsonable(v, m) for v in pv], "ref": [jsonable(v, m) for v in rv]}
        h = H(PROP, case["name"], decode, replay_kind="crop", max_witnesses=40)
        mets = [getattr(Metric, m) for m in METRICS]

        def body():
            pa = SArr(list(pv), "uint8", shape).protect("caller prediction")
            ra = SArr(list(rv), "uint8", shape).protect("caller reference")
            try:
                got = IE._evaluate_instance(ra, pa, 1, mets)
                both = bool(SBool(z3.And(z3.Or([v == 1 for v in pv]), z3.Or([v == 1 for v in rv]))))
                if not both:
                    h.ok("empty_instance_gives_no_values", got == {})
                    return
                direct = {m: m(ra == 1, pa == 1) for m in mets}
            except EngineSignal:
                raise
            except WriteToProtected as e:
                h.fail("no_input_mutation", detail=str(e))
                return
            except Exception as e:
                h.fail("instance_evaluation_completes", detail="%s: %s" % (type(e).__name__, str(e)[:120]))
                return
            for m in mets:
                a, b = e2e.conc(got.get(m)), e2e.conc(direct[m])
                h.ok("cropped_value_equals_uncropped_value", a == b, detail={"metric": m.name, "cropped": str(a), "uncropped": str(b)})
            h.note_nontrivial(tuple(str(e2e.conc(direct[m])) for m in mets))
            h.witness(expect=None)
        return explore_case(h, body, base=base, concretize_div=64, time_budget=3000)

    # ---- whole-pipeline two-run obligations
    pv, rv, base = e2e.sym_arrays(shape, 2, "uint8")
    thr = z3.Real("thr_m")
    base += [thr >= 0, thr <= 1]
    if case.get("fix2"):
        base += [pv[0] == case["fix2"][0], rv[0] == case["fix2"][1]]
    cfg = {"input_type": case.get("input_type", "UNMATCHED_INSTANCE"), "matching_metric": "IOU", "decision_metric": None, "metrics": METRICS}
    semantic = cfg["input_type"] == "SEMANTIC"
    if semantic:
        cfg["backend"] = None
        base.append(thr > z3.Q(1, 2))      # IoU above 1/2: the matching is unique whatever the instances are, no tie analysis needed
        base += [v <= 1 for v in rv]       # reference with one semantic class, prediction with two (keeps the case within the quick budget)

    def decode(m):
        d = {"what": what, "shape": list(shape), "pred": [jsonable(v, m) for v in pv], "ref": [jsonable(v, m) for v in rv], "thr_m": jsonable(thr, m), "input_type": cfg["input_type"]}
        d.update({k: case[k] for k in ("big", "offset", "op") if k in case})
        return d
    h = H(PROP, case["name"], decode, replay_kind="tworun", max_witnesses=40)

    def body():
        if what == "embed":
            big = tuple(case["big"])
            p2, r2, shp2 = embed(list(pv), shape, big, case["offset"]), embed(list(rv), shape, big, case["offset"]), big
        else:
            p2, shp2 = transform(list(pv), shape, case["op"])
            r2, _ = transform(list(rv), shape, case["op"])
        try:
            ev = e2e.build_evaluator(T, cfg, SNum(thr), None)
            a = e2e.run_twin(T, ev, SArr(list(pv), "uint8", shape).protect("caller prediction"), SArr(list(rv), "uint8", shape).protect("caller reference"), METRICS)
            b = e2e.run_twin(T, e2e.build_evaluator(T, cfg, SNum(thr), None), SArr(p2, "uint8", shp2), SArr(r2, "uint8", shp2), METRICS)
        except EngineSignal:
            raise
        except WriteToProtected as e:
            h.fail("no_input_mutation", detail=str(e))
            return
        except Exception as e:
            h.fail("evaluation_completes", detail="%s: %s" % (type(e).__name__, str(e)[:120]))
            return
        if not semantic:
            C = e2e.Counts(pv, rv, 2, 2)
            if e2e.oracle(C, cfg, SNum(thr), None) is None:
                return          # tied competing candidates: the matching is not uniquely determined
        name = "unchanged_by_embedding" if what == "embed" else "unchanged_by_" + case["op"]
        h.ok(name + "_counts", (a["tp"], a["fp"], a["fn"], a["n_pred"], a["n_ref"]) == (b["tp"], b["fp"], b["fn"], b["n_pred"], b["n_ref"]),
             detail={"original": [a["tp"], a["fp"], a["fn"]], "transformed": [b["tp"], b["fp"], b["fn"]]})
        for m in METRICS:
            h.ok(name + "_values", a["lists"][m] == b["lists"][m], detail={"metric": m, "original": [str(x) for x in a["lists"][m]], "transformed": [str(x) for x in b["lists"][m]]})
        if a["tp"] > 0:
            h.note_nontrivial((a["tp"], a["fp"], a["fn"], tuple(str(x) for x in a["lists"]["IOU"])))
        h.witness(expect={"tp": a["tp"], "fp": a["fp"], "fn": a["fn"]})
    return explore_case(h, body, base=base, concretize_div=64, time_budget=3000)


# ================================================================================================ real-package side
def real_bbox(case, mode, expect):
    import numpy as np
    from panoptica.utils.numpy_utils import _get_bbox_nd
    shape = tuple(case["shape"])
    img = np.array(case["img"], dtype=np.uint8).reshape(shape)
    sl = _get_bbox_nd(img, px_dist=case["px"])
    bad = None
    for ax in range(len(shape)):
        nz = np.flatnonzero(img.any(axis=tuple(a for a in range(len(shape)) if a != ax)))
        want = list(range(max(int(nz[0]) - case["px"], 0), min(int(nz[-1]) + case["px"], shape[ax] - 1) + 1))
        got = list(range(*sl[ax].indices(shape[ax])))
        if got != want:
            bad = "box_is_tight_box_widened_by_pad_and_clipped: axis %d indices %s, expected %s (pad %d, image %s)" % (ax, got, want, case["px"], img.tolist())
    return {"match": True, "violates": bad is not None, "reason": bad, "observed": None}


def real_paircrop(case, mode, expect):
    import numpy as np
    from panoptica.utils.processing_pair import MatchedInstancePair
    shape = tuple(case["shape"])
    pred = np.array(case["pred"], dtype=np.uint8).reshape(shape)
    ref = np.array(case["ref"], dtype=np.uint8).reshape(shape)
    pair = MatchedInstancePair(pred.copy(), ref.copy())
    pair.crop_data()
    a1, b1 = np.array(pair.prediction_arr), np.array(pair.reference_arr)
    pair.crop_data()
    a2, b2 = np.array(pair.prediction_arr), np.array(pair.reference_arr)
    bad = None
    if np.count_nonzero(a1) != np.count_nonzero(pred) or np.count_nonzero(b1) != np.count_nonzero(ref):
        bad = "crop_keeps_every_foreground_voxel: %s / %s cropped to %s / %s" % (pred.tolist(), ref.tolist(), a1.tolist(), b1.tolist())
    elif a1.shape != a2.shape or not (np.array_equal(a1, a2) and np.array_equal(b1, b2)):
        bad = "second_crop_request_changes_nothing: %s / %s: first crop %s / %s, after the second request %s / %s" % (pred.tolist(), ref.tolist(), a1.tolist(), b1.tolist(), a2.tolist(), b2.tolist())
    return {"match": True, "violates": bad is not None, "reason": bad, "observed": None}


def real_crop(case, mode, expect):
    import numpy as np
    from panoptica import Metric
    from panoptica.instance_evaluator import _evaluate_instance
    shape = tuple(case["shape"])
    pred = np.array(case["pred"], dtype=np.uint8).reshape(shape)
    ref = np.array(case["ref"], dtype=np.uint8).reshape(shape)
    mets = [getattr(Metric, m) for m in METRICS]
    got = _evaluate_instance(ref.copy(), pred.copy(), 1, mets)
    bad = None
    if (pred == 1).any() and (ref == 1).any():
        for m in mets:
            d = m(ref == 1, pred == 1)
            if m not in got or not close(float(got[m]), float(d), 1e-12):
                bad = "cropped_value_equals_uncropped_value: %s cropped %r, uncropped %r (pred %s ref %s)" % (m.name, got.get(m), d, pred.tolist(), ref.tolist())
    elif got != {}:
        bad = "empty_instance_gives_no_values: %r" % (got,)
    return {"match": True, "violates": bad is not None, "reason": bad, "observed": None}


def real_tworun(case, mode, expect):
    import numpy as np
    RC.use_serial_pool(mode == "witness")
    shape = tuple(case["shape"])
    pred = np.array(case["pred"], dtype=np.uint8).reshape(shape)
    ref = np.array(case["ref"], dtype=np.uint8).reshape(shape)
    cfg = {"input_type": case.get("input_type", "UNMATCHED_INSTANCE"), "matching_metric": "IOU", "matching_threshold": fl(case["thr_m"]), "decision_metric": None, "metrics": METRICS}
    if cfg["input_type"] == "SEMANTIC":
        cfg["backend"] = None
    want = RC.reference_pipeline(pred, ref, cfg)
    if not want["unique"]:
        return {"match": True, "violates": False, "reason": None, "observed": "tie"}
    variants = []
    if case["what"] == "embed":
        big, off = tuple(case["big"]), tuple(case["offset"])
        def emb(a):
            b = np.zeros(big, dtype=a.dtype)
            b[tuple(slice(o, o + s) for o, s in zip(off, shape))] = a
            return b
        variants.append(("embedding at %s in %s" % (off, big), emb(pred), emb(ref)))
    else:
        op = case["op"]
        f = (lambda a: a.T) if op == "transpose" else (lambda a: np.flip(a, axis=int(op[-1])))
        variants.append((op + " (view, non-contiguous)", f(pred), f(ref)))
        variants.append((op + " (contiguous copy)", np.ascontiguousarray(f(pred)), np.ascontiguousarray(f(ref))))
        variants.append(("Fortran-ordered copy of the original", np.asfortranarray(pred), np.asfortranarray(ref)))
        # the two arrays need not share a memory layout (validation only: the symbolic array model has no layout)
        variants.append(("original, prediction Fortran-ordered / reference C-ordered", np.asfortranarray(pred), np.ascontiguousarray(ref)))
        variants.append((op + " (prediction a non-contiguous view, reference a contiguous copy)", f(pred), np.ascontiguousarray(f(ref))))

    def run(p, r):
        res = RC.build_evaluator(cfg).evaluate(p, r, verbose=False)["ungrouped"][0]
        return RC.result_to_dict(res, METRICS)
    bad = None
    try:
        a = run(pred.copy(), ref.copy())
    except Exception as e:
        return {"match": False, "violates": True, "reason": "evaluation_completes: %s: %s" % (type(e).__name__, str(e)[:120]), "observed": None}
    d = RC.definition_oracle(a, want, METRICS)
    if d is not None:
        bad = "unchanged_original_matches_definition: %s: %s" % d
    for name, p2, r2 in variants:
        if bad:
            break
        try:
            b = run(p2, r2)
        except Exception as e:
            bad = "evaluation_completes: under %s: %s: %s" % (name, type(e).__name__, str(e)[:120])
            break
        if (a["tp"], a["fp"], a["fn"]) != (b["tp"], b["fp"], b["fn"]):
            bad = "unchanged_by_transformation_counts: %s: tp/fp/fn %s -> %s" % (name, (a["tp"], a["fp"], a["fn"]), (b["tp"], b["fp"], b["fn"]))
        else:
            for m in METRICS:
                if len(a["lists"][m]) != len(b["lists"][m]) or any(not close(x, y, 1e-12) for x, y in zip(sorted(a["lists"][m]), sorted(b["lists"][m]))):
                    bad = "unchanged_by_transformation_values: %s: %s %s -> %s" % (name, m, sorted(a["lists"][m]), sorted(b["lists"][m]))
    ok = mode != "witness" or expect is None or all(a[k] == expect[k] for k in ("tp", "fp", "fn"))
    return {"match": ok, "why": None if ok else "twin %s real %s" % (expect, a), "violates": bad is not None, "reason": bad, "observed": None}


def _real_assd_embed(case, mode, expect):
    from . import C07
    return C07.real_embed(case, mode, expect)


REAL = {"bbox": real_bbox, "paircrop": real_paircrop, "crop": real_crop, "tworun": real_tworun, "embed": _real_assd_embed}
