#!/bin/bash
# tools/runall.sh [tier] [ids...] : run registered checks once on the unchanged tree, print exit code and wall time
TIER=${1:-quick}; shift
IDS=${@:-C01 C02 C03 C04 C05 C06 C07 C08 C09 C10 C11 C12 C13 C14 C15 C16 C17 C18 C19 C20}
cd /verif
for id in $IDS; do
  s=$(date +%s)
  timeout ${RUNALL_TIMEOUT:-10800} ./check $id --tier $TIER > /tmp/runall_${TIER}_$id.out 2>&1
  rc=$?
  e=$(date +%s)
  echo "$id rc=$rc $((e-s))s | $(grep "tier=$TIER" /tmp/runall_${TIER}_$id.out | head -1 | cut -c1-200)"
  grep -E "VIOLATION|INCONCLUSIVE|ERROR|KNOWN-FINDING" /tmp/runall_${TIER}_$id.out | head -3 | cut -c1-300
done
