#!/usr/bin/env python3
"""regenerates MANIFEST.json from the table below (run after adding a check)"""
import json, os
V = os.path.dirname(os.path.dirname(os.path.abspath(__file__)))
props = [json.loads(l) for l in open(os.path.join(V, "properties.jsonl"))]
TECH = "bounded symbolic execution of the twin-imported repository source (own z3 path-forking engine), obligations discharged as SMT queries; counterexamples and path witnesses replayed on the real package"
CHECKS = {
 "C03": dict(text="Every feasible path of the real NaiveThresholdMatching loop (with the real sorted/threshold/label-map code) over a symbolic contingency pattern is explored; soundness, injectivity, maximality, best-first and monotonicity are solver queries over free real scores, so ties and exact-threshold scores are covered for all values within the instance-grid bound.",
             note="overlap-pair extraction and metric kernels are contract stubs (decided by C09/C06/C07); free scores over-approximate, counterexamples are realised as voxel counts and replayed; grids larger than the bound are outside the claim",
             ref="DESIGN.md section 4 / C03"),
}
CHECKS["C06"] = dict(text="The real Metric.__call__/_Metric.__call__ label selection and the Dice/IoU/RVD/clDice kernels run on fully symbolic small arrays (every voxel, the requested reference label and prediction label(s) are solver variables, incl. absent labels and values outside the dtype); each result is compared by SMT query with the set-theoretic definition built directly from the voxel variables, plus symmetry, range, the Dice-IoU relation and '= 1 iff identical'.",
             note="skeletonisation is an uninterpreted subset (stub); float64 as exact rationals; arrays larger than the bound are outside the claim",
             ref="DESIGN.md section 4 / C06")
CHECKS["C02"] = dict(text="The real evaluate_matched_instance decision filter, EvaluateInstancePair, PanopticaResult, Evaluation_List_Metric and the fp/fn/rq/sq/pq calculators run with per-instance metric values, thresholds and (for directly constructed results) unbounded counts as solver variables; list lengths, tp+fp/tp+fn, mean/std, rq and pq identities and ranges are SMT obligations on every path.",
             note="per-instance kernel is a contract stub (free reals under the C06 lemmas); np.std trusted (obligation on its arguments); ranges of quotients via linear side conditions; counterexamples realised as 1-D label maps and replayed through Panoptica_Evaluator.evaluate",
             ref="DESIGN.md section 4 / C02")
CHECKS["C14"] = dict(text="Every feasible path of the real MaximizeMergeMatching loop (real sorted order, label map, new_combination_score incl. the np.isin union selection) is explored with the score of every (reference, set of predictions) a free real and the metric direction concrete per case; 'matched only if a single prediction meets the threshold', 'merged only if strictly better in the preferred direction' and 'final score at least as good and meets the threshold' are SMT obligations per path.",
             note="set scores are free reals (over-approximation); counterexamples are realised as voxel counts (second query) or re-found by a guided search and replayed on the real matcher; grid bound",
             ref="DESIGN.md section 4 / C14")
CHECKS["C09"] = dict(text="Layer A: the real _calc_overlapping_labels, _get_paired_crop/_get_bbox_nd, the processing-pair label bookkeeping and the semantic dtype cast run once per canonical geometry class with the label VALUES as free ordered integers in [1, min(2^w, 2^24)) for each unsigned dtype (signed for semantic input); 'kernel equals its label-generic specification' is a QF_NIA query with explicit mod 2^w wherever NumPy 1.26 wraps.",
             note="small-scope argument for <= 3 voxels (DESIGN 3); NumPy promotion/wrap model validated by replaying every path witness on the real package; labels >= 2^24 outside the claim",
             ref="DESIGN.md section 4 / C09")
CHECKS["C04"] = dict(text="Layer A: the real map_instance_labels/_map_labels (np.arange with symbolic length as a lazily indexed array with in-bounds decisions), InstanceLabelMap and MatchedInstancePair construction run for every label map over <= 3 predictions x <= 2 references with free label values per dtype; reference unchanged, foreground unchanged, partition preserved, matched label carried, fresh labels distinct from every reference label are QF_NIA obligations.",
             note="one voxel per label; > 3 unmatched predictions outside the symbolic run (overflow is reachable with one); labels >= 2^24 outside the claim",
             ref="DESIGN.md section 4 / C04")
CHECKS["C08"] = dict(text="The real handler classes, _handle_zero_instances_cases, the early exits of panoptic_evaluate for all three input types and PanopticaResult run with a lazily symbolic handler configuration (each (metric, scenario) result and the empty-list value is forked over its five members only when the code reads it) and, for directly constructed results, unbounded symbolic instance counts; 'sq_<m> is identically the value configured for the scenario defined by the statement' is checked on every path.",
             note="one metric's configuration is symbolic per case (others fixed) to avoid the 5^20 product; pipeline inputs are concrete representatives of each scenario; CC back ends are contract stubs",
             ref="DESIGN.md section 4 / C08")
CHECKS["C13"] = dict(text="PanopticaResult's binarisation and _calc_global_bin_metric run on fully symbolic small label maps (every voxel a solver variable, also over the whole dtype range) with a lazily symbolic handler; the reported global_bin_<m> is compared by SMT query with the metric of the two foregrounds built from the voxel variables, and with the configured empty-prediction / empty-reference / no-instances value when a side is empty.",
             note="float64 as exact rationals; array size bound; ASSD/clDice global metrics only in the thorough tier / not at all (skeleton stub)",
             ref="DESIGN.md section 4 / C13")
CHECKS["C20"] = dict(text="The real ValueSummary and Panoptica_Statistic (get, get_one_subject, get_summary, get_summary_across_groups) run on tables whose cells are free reals or missing (every presence pattern explored by forking) and under a permuted subject order; mean, min/max attainment, 'np.std called on exactly the present values with ddof 0', permutation invariance, per-subject lookup and the across-groups summary are SMT obligations.",
             note="np.std trusted (obligation on its arguments); float summation order not modelled; table size bound",
             ref="DESIGN.md section 4 / C20")
CHECKS["C18"] = dict(text="The real header construction, row writing and Panoptica_Statistic.from_file/get_one_subject run end to end over an in-memory file model with group and subject names as bounded symbolic strings (symbolic printable code points; split/rsplit/dict-key equality fork) and symbolic value kinds; 'the loader returns exactly the finite value written under the same subject/group/metric, and missing otherwise' is checked on every path.",
             note="csv text quoting and float repr round trip are trusted and exercised for real on every witness (solver-chosen names, rescaled magnitudes); name length bound; evaluator is a stub object at the aggregator boundary",
             ref="DESIGN.md section 4 / C18")
CHECKS["C12"] = dict(text="The real SegmentationClassGroups / LabelGroup / LabelMergeGroup extraction and Panoptica_Evaluator.evaluate/_evaluate_group run on fully symbolic label maps (labels 0..4, -1..4 for signed semantic input) with panoptic_evaluate as an uninterpreted function whose arguments are recorded: each group receives exactly the restriction of both arrays to its labels (binarised for merge groups, as an already matched pair with threshold 0 for single-instance groups), inputs with an ungrouped non-zero label are rejected before any evaluation, and the caller's arrays are never written.",
             note="'equals evaluating the restricted arrays' is reduced to the arguments handed to panoptic_evaluate; four fixed group definitions; array size bound; replays compare against an ungrouped evaluation of the restricted arrays on the real package",
             ref="DESIGN.md section 4 / C12")
CHECKS["C15"] = dict(text="The whole evaluate pipeline runs in the twin with write-protected caller arrays while the solver chooses (a) every combination of constructor flags and per-call options under a symbolic non-decreasing clock and (b) a history of up to two (thorough: three) operations - evaluations of other inputs, construction of other evaluators/handlers, aggregators with and without log_times, reading the metric keys - executed before the compared evaluation; metrics, advertised metric keys and saved configuration must equal those of the reference evaluation made first.",
             note="inputs are fixed concrete label maps chosen to sit between matcher and decision threshold; serial-vs-worker equivalence only up to the order-preserving Pool contract; replays restart the real interpreter per counterexample",
             ref="DESIGN.md section 4 / C15")
CHECKS["C19"] = dict(text="The real save_to_config/load_from_config, to_yaml/from_yaml, every _yaml_repr and every configurable constructor run over a structural model of ruamel's representer/constructor; the solver chooses every enumerated option lazily, thresholds are free reals and flags free Booleans (so falsy values such as 0.0, False and empty lists are covered); the loaded object graph must have the same classes and private state as the saved one and re-saving must reproduce the node tree, for the evaluator and for each component alone.",
             note="YAML text layer trusted (run for real on every replay together with a probe evaluation and loading the shipped configurations); derived attributes (_default_result, flat label list) excluded; nested components use fixed inner choices inside the evaluator cases",
             ref="DESIGN.md section 4 / C19")
CHECKS["C05"] = dict(text="The real approximate_instances / _approximate_instances / _connected_components glue runs on fully symbolic semantic maps with the compiled back ends replaced by contract stubs parametrised by the arguments the repo actually passes; the obligations decide how the repo drives them: documented back end per dimensionality (also after the same object processed another dimensionality), full vs face connectivity, the back end sees exactly the (losslessly cast) semantic map, labels and counts reach the result unaltered for any number of components up to 2^20, negative values rejected.",
             note="the compiled cc3d/scipy routines are trusted to meet the contract (validated on every witness against an independent flood fill on the real package); array size bound",
             ref="DESIGN.md section 4 / C05")
CHECKS["C07"] = dict(text="The real ASSD code path (__surface_distances, _distance_transform_edt incl. ft - indices, squaring, add.reduce, sqrt, masked mean) runs on pairs of fully symbolic Boolean masks; the result is compared by SMT query with an oracle built straight from the statement (border voxels, nearest-border distances, mean of the two directed means), plus symmetry, non-negativity, 'zero iff borders coincide', embedding invariance, and exactness of the squared distance for arbitrary feature-transform coordinates up to 2^17.",
             note="binary_erosion / euclidean_feature_transform are contract stubs; sqrt of the finitely many squared distances are bounded monotone real constants (linear arithmetic); float last-ulp outside the claim; mask size bound",
             ref="DESIGN.md section 4 / C07")
CHECKS["C01"] = dict(text="The whole pipeline - evaluate, crop, instance approximation (CC contract stubs), overlap-pair extraction, matching with the real sorted order, relabelling, per-instance evaluation, result object - runs in ONE symbolic execution on fully symbolic label maps (every voxel a solver variable) with free real matching/decision thresholds; on every path the reported instance counts, tp/fp/fn, per-TP Dice/IoU/RVD multisets, sq and rq are compared with an independent oracle of the documented procedure evaluated on the path's voxel counts; tied competing candidates are excluded as the statement excludes them.",
             note="small arrays (3-5 voxels, <= 2 instances per side for instance input); ASSD end to end outside this run; 3x3-instance behaviour is covered compositionally by C03/C02/C04/C09; float64 as exact rationals",
             ref="DESIGN.md section 4 / C01")
CHECKS["C10"] = dict(text="_get_bbox_nd on symbolic images with symbolic padding is compared with 'tight box widened by the pad and clipped'; the per-instance crop is compared with the uncropped kernels on 1-D maps long enough for any pad up to 5; and the whole pipeline is run twice per path - original vs. zero-embedded at an offset, reversed, transposed, flipped - with all counts and per-TP values required to be equal.",
             note="memory layout (C/Fortran order, negative strides) is not representable in the array model: NOT decided; every witness is replayed as non-contiguous view, contiguous copy and Fortran-ordered copy on the real package (validation only); small arrays",
             ref="DESIGN.md section 4 / C10")
CHECKS["C11"] = dict(text="Two runs per path with prediction and reference exchanged: the whole pipeline on symbolic label maps (tp equal, fp/fn exchanged, IoU/Dice multisets equal, RVD mirrored to -r/(1+r)), the per-instance crop + kernels on longer 1-D maps, and the real threshold matcher on a symbolic contingency pattern vs. its transpose with free real scores (assignment transposed when no competing candidates tie).",
             note="ASSD symmetry is decided at kernel level in C07; size bounds; ties excluded",
             ref="DESIGN.md section 4 / C11")
CHECKS["C17"] = dict(text="The real Panoptica_Aggregator constructor / evaluate / _save_one_subject and its file helpers run over an in-memory file model while the solver chooses the initial state of the output file, the crash point (the session is killed before any one of its lock / file / helper operations, no atexit), the resubmission order, one subject name as a bounded symbolic string, and - for sibling aggregators in one directory - the order of all constructor / evaluate calls; after restart and resubmission the file must hold the header exactly once and exactly one complete row per subject.",
             note="crash granularity = aggregator-level operations (torn writes inside one row write are outside the claim); sequential sessions (concurrency is C16); every counterexample / witness is replayed on the real package with child processes killed by os._exit at the same operation index",
             ref="DESIGN.md sections 3.2, 4 / C17")
NA = {}
m = {"version": 1, "setup_cmd": "./bootstrap.sh",
     "hooks": {"guard": "PANOPTICA_VERIF", "enable": "no hooks in /repo: checks re-import /repo/panoptica from the working tree into a private twin with model modules substituted at import time (pv/twin.py)",
               "baseline_off_cmd": "cd /repo && /venv/bin/python -m pytest -ra -q -p no:cacheprovider --timeout=900 --continue-on-collection-errors",
               "source_commits": [], "add_only": True},
     "engines": [{"name": "symx", "path": "pv/", "serves_properties": sorted(CHECKS), "kind_free_text": "re-execution path-forking symbolic executor over z3 running the repository's own Python function bodies against a symbolic numpy model"}],
     "checks": [], "not_applicable": [],
     "notes": "exit codes: 0 held / 1 violation (VIOLATION line, replay file) / 2 inconclusive or harness error. Known findings: known_findings.json."}
for p in props:
    i = p["id"]
    if i in CHECKS:
        c = CHECKS[i]
        m["checks"].append({"property_id": i, "quick_cmd": "./check %s --tier quick" % i, "thorough_cmd": "./check %s --tier thorough" % i,
                            "evidence_file": "/verif/evidence/%s.json" % i, "replay_cmd_template": "./check %s --replay {path}" % i, "engine": "symx",
                            "level_claimed": {"category": "model_checking", "text": c["text"], "design_ref": c["ref"]}, "level_note": c["note"], "technique": c.get("tech", TECH)})
    else:
        m["not_applicable"].append({"property_id": i, "reason": NA.get(i, "check not built yet (build phase in progress)")})
json.dump(m, open(os.path.join(V, "MANIFEST.json"), "w"), indent=1)
print("checks:", [c["property_id"] for c in m["checks"]])
