"""C16 - concurrent aggregation records every subject exactly once, intact (protocol layer: trace extraction + BMC, DESIGN 3.2 / 4/C16).

Symbolically executed (twin, recording stubs with symbolic answers): Panoptica_Aggregator.evaluate, _save_one_subject, make_statistic -> one
summary program per method (lock / file / evaluation skeleton), regenerated from /repo on every run.  A z3 bounded model check composes
2-4 concurrent calls: one symbolic schedule variable per step, symbolic (possibly colliding) subject names, row appends as two micro-steps.
A sat answer is a schedule; it is replayed on the REAL package with real threads whose lock / helper operations are forced into exactly
that order by import-time wrappers (a row write is split in two halves at the scheduling point inside it).
"""
from __future__ import annotations

import json
import time

import z3

from ..sym import ENG
from .. import protocol
from . import aggcommon as AC

PROP = "C16"
NAMES = {1: "subject_one", 2: "subject_two"}
LATER = "later_subject"
META = {
    "bounds": {"quick": "2 concurrent evaluate() calls, and 2 evaluate() calls + 1 make_statistic(), on one shared aggregator; subject of each call symbolic in {a, b} (colliding names included); every interleaving of their "
                        "lock / file / evaluation operations (<= 40 steps); row appends split in two micro-steps",
               "thorough": "3 concurrent evaluate() calls, and 3 + make_statistic()"},
    "stubs": ["file helpers (_load_first_column_entries, _write_content), the evaluator and Panoptica_Statistic.from_file := recording stubs with symbolic answers during extraction",
              "locks := shared between all callers (threads, or forked workers inheriting the module's lock objects)"],
    "assumptions": ["helper calls other than the row write are atomic steps (justified on the unchanged tree by the only_complete_rows_are_read obligation: every access to a file is excluded from every write to it)",
                    "spawned / unrelated processes that do not share the lock objects, and torn writes inside the OS, are outside the statement", "evaluation is a function of the subject (C15)"],
    "nontrivial_rule": "distinct extracted traces and BMC obligations",
}


OBLIGATIONS = ["exactly_one_row_per_distinct_subject", "no_call_blocks_forever", "locks_free_once_all_calls_returned", "only_complete_rows_are_read"]


def cases(tier):
    cfgs = [("two_evaluate", ["evaluate", "evaluate"]), ("two_evaluate_one_statistic", ["evaluate", "evaluate", "make_statistic"])]
    if tier != "quick":
        cfgs.append(("three_evaluate", ["evaluate", "evaluate", "evaluate"]))
    # one solver query per worker process: (thread configuration, obligation)
    out = [{"name": "%s__%s" % (n, ob), "threads": th, "only": ob} for n, th in cfgs for ob in OBLIGATIONS]
    # the model composes workers over SHARED lock objects; that the module's locks are of the process-shared kind is its own obligation
    out.append({"name": "module_locks__shared_with_forked_workers", "what": "lockshare", "threads": []})
    return out


def run_case(case):
    from ..twin import Twin
    from .. import fsmodel
    t0 = time.time()

    def factory():
        fs = fsmodel.FS()
        mods, fopen = fsmodel.make_modules(fs)
        T = Twin(fakes=mods, extra_builtins={"open": fopen})
        T._pv_fs = fs
        return T
    err = None
    violations, witnesses, obligations, stats = [], [], {}, {"paths": 0, "decisions": 0, "checks": 0, "sat": 0, "unsat": 0, "unknown": 0, "solver_s": 0.0}
    functions = []
    nontrivial = []
    if case.get("what") == "lockshare":
        from .. import stubs
        try:
            T = factory()
            A = T.mod("panoptica.panoptica_aggregator")
            kinds = {n: type(getattr(A, n, None)).__name__ for n in ("filelock", "inevalfilelock")}
            ok = all(isinstance(getattr(A, n, None), stubs.ModelLock) for n in kinds)       # created through multiprocessing (the model's Lock)
            obligations["module_locks_are_shared_with_forked_workers"] = [1, 1 if ok else 0]
            stats.update(paths=1, checks=1, unsat=1 if ok else 0, sat=0 if ok else 1)
            nontrivial += ["lock kinds %s" % sorted(kinds.items()), "lockshare"]
            functions = ["panoptica/panoptica_aggregator.py:<module>"]
            if not ok:
                violations.append({"obligation": "module_locks_are_shared_with_forked_workers", "case": {"locks": kinds}, "detail": None, "kind": "lockshare", "extra": None})
            witnesses.append({"case": {"locks": kinds}, "expect": None, "kind": "lockshare", "tag": "lock kinds"})
        except Exception as e:
            import traceback
            err = "%s: %s\n%s" % (type(e).__name__, e, traceback.format_exc(limit=8))
        return {"prop": PROP, "case": case["name"], "stats": stats, "violations": violations, "witnesses": witnesses, "obligations": obligations,
                "nontrivial": sorted(set(nontrivial)), "functions": functions, "error": err, "wall_s": time.time() - t0}
    try:
        traces, digest = protocol.extract(factory)
        programs = {k: protocol.build_program(v) for k, v in traces.items()}
        stats["paths"] = sum(len(v) for v in traces.values())
        functions = ["panoptica/panoptica_aggregator.py:Panoptica_Aggregator.evaluate", "panoptica/panoptica_aggregator.py:Panoptica_Aggregator._save_one_subject",
                     "panoptica/panoptica_aggregator.py:Panoptica_Aggregator.make_statistic"]
        for k, v in traces.items():
            for t in v:
                nontrivial.append("%s:%s" % (k, " ".join("/".join(map(str, e)) for e in t)))
        bmc = protocol.BMC(programs, case["threads"], names=(1, 2), timeout_ms=600000 if len(case["threads"]) < 3 or "make_statistic" in case["threads"] else 2400000)
        stats["decisions"] = bmc.T
        for name, verdict, cex in bmc.obligations(only=case.get("only")):
            st = obligations.setdefault(name, [0, 0])
            st[0] += 1
            if verdict == "holds":
                st[1] += 1
            elif verdict == "unknown":
                err = "solver unknown on obligation %s" % name
            else:
                violations.append({"obligation": name, "case": cex or {"thread_prog": case["threads"], "steps": [], "names": []}, "detail": None, "kind": "schedule", "extra": None})
            nontrivial.append("obligation:" + name)
        stats["checks"] = len(bmc.queries)
        stats["solver_s"] = bmc.solver_s
        stats["sat"] = sum(1 for q in bmc.queries if q["result"] == "sat")
        stats["unsat"] = sum(1 for q in bmc.queries if q["result"] == "unsat")
        stats["unknown"] = sum(1 for q in bmc.queries if q["result"] not in ("sat", "unsat"))
        # vacuity witness: a complete schedule, replayed on the real package (must give exactly one row per distinct subject)
        if str(bmc.s.check(bmc._allfin(bmc.S[bmc.T]))) == "sat":
            witnesses.append({"case": bmc.decode(), "expect": None, "kind": "schedule", "tag": "complete schedule"})
        witnesses.append({"case": {"programs": {k: [list(i) for i in p] for k, p in programs.items()}, "queries": bmc.queries}, "expect": None, "kind": None, "tag": "extracted programs"})
    except Exception as e:
        import traceback
        err = "%s: %s\n%s" % (type(e).__name__, e, traceback.format_exc(limit=8))
    return {"prop": PROP, "case": case["name"], "stats": stats, "violations": violations, "witnesses": witnesses, "obligations": obligations,
            "nontrivial": sorted(set(nontrivial)), "functions": functions, "error": err, "wall_s": time.time() - t0}


# ================================================================================================ real-package side
class Divergence(Exception):
    pass


def _replay_schedule(case, free_run_s=2.0):
    """force the schedule on real threads; returns (observations dict)"""
    import csv
    import io
    import os
    import shutil
    import tempfile
    import threading
    import panoptica.panoptica_aggregator as A
    import importlib
    importlib.reload(A)          # fresh module state (locks, wrappers) for every replay
    steps = [(s["thread"], s["ins"]) for s in case["steps"] if s["ins"][0] != "br"]
    names = [NAMES.get(x, "subject_%s" % x) for x in case["names"]]
    progs = case["thread_prog"]
    tmp = tempfile.mkdtemp(prefix="pv_c16_")
    out = os.path.join(tmp, "results.tsv")
    cond = threading.Condition()
    state = {"pos": 0, "free": False, "diverged": None}
    local = threading.local()

    def fname(f):
        return "tmp" if str(f).endswith("tmp.tsv") else "out"

    def point(op, arg=None):
        tid = local.tid
        with cond:
            while True:
                if state["free"] or state["diverged"]:
                    return False
                if state["pos"] < len(steps):
                    et, ei = steps[state["pos"]]
                    if et == tid:
                        if ei[0] != op or (len(ei) > 1 and arg is not None and ei[1] != arg):
                            state["diverged"] = "thread %d performs %s %s where the schedule expects %s" % (tid, op, arg, ei)
                            cond.notify_all()
                            return False
                        return True
                else:
                    state["free"] = True
                    cond.notify_all()
                    return False
                if not cond.wait(timeout=10):
                    state["diverged"] = "thread %d waited 10 s for its turn at %s %s (schedule position %d: %s)" % (tid, op, arg, state["pos"], steps[state["pos"]] if state["pos"] < len(steps) else None)
                    cond.notify_all()
                    return False

    def done(granted):
        if granted:
            with cond:
                state["pos"] += 1
                if state["pos"] >= len(steps):
                    state["free"] = True
                cond.notify_all()

    class SLock:
        def __init__(self, lock, name):
            self.lock, self.name = lock, name

        def acquire(self, *a, **k):
            g = point("acq", self.name)
            if g:
                if not self.lock.acquire(timeout=5):
                    state["diverged"] = "lock %s not free where the schedule acquires it" % self.name
                done(g)
            else:
                self.lock.acquire()
            return True

        def release(self):
            g = point("rel", self.name)
            self.lock.release()
            done(g)

        def __enter__(self):
            self.acquire()
            return self

        def __exit__(self, *a):
            self.release()
            return False
    A.filelock = SLock(threading.Lock(), "filelock")
    A.inevalfilelock = SLock(threading.Lock(), "inevalfilelock")
    real_load = A._load_first_column_entries

    def load(f):
        g = point("readcol", fname(f))
        try:
            return real_load(f)
        finally:
            done(g)
    A._load_first_column_entries = load

    def write(f, content):
        buf = io.StringIO()
        w = csv.writer(buf, delimiter="\t", lineterminator="\n")
        for c in content:
            w.writerow(c)
        text = buf.getvalue()
        half = max(1, len(text) // 2)
        g = point("append_begin", fname(f))
        with open(str(f), "a", encoding="utf8", newline="") as fh:
            fh.write(text[:half])
        done(g)
        g = point("append_end", fname(f))
        with open(str(f), "a", encoding="utf8", newline="") as fh:
            fh.write(text[half:])
        done(g)
    A._write_content = write
    real_from_file = A.Panoptica_Statistic.from_file

    class Stat:
        @staticmethod
        def from_file(f):
            g = point("readall", fname(f))
            try:
                return real_from_file(f)
            finally:
                done(g)
    A.Panoptica_Statistic = Stat

    class Ev(AC.StubEvaluator):
        resulting_metric_keys = ["tp"]

        def evaluate(self, pred, ref, **kw):
            g = point("EVAL")
            done(g)
            return {"g": (AC.Res({"tp": float(len(threading.current_thread().subject))}), None)}
    errors, stats_seen = {}, {}
    try:
        local.tid = -1
        state["free"] = True
        agg = A.Panoptica_Aggregator(Ev(), out)          # constructed before the concurrent calls start
        state["free"] = False

        def worker(tid):
            local.tid = tid
            try:
                if progs[tid] == "evaluate":
                    threading.current_thread().subject = names[tid]
                    agg.evaluate(None, None, names[tid])
                else:
                    st = agg.make_statistic()
                    stats_seen[tid] = {s: st.get_one_subject(s) for s in st.subjectnames}
            except BaseException as e:      # noqa
                errors[tid] = "%s: %s" % (type(e).__name__, str(e)[:200])
        ths = []
        for tid in range(len(progs)):
            th = threading.Thread(target=worker, args=(tid,), daemon=True)
            th.subject = None
            ths.append(th)
        for th in ths:
            th.start()
        deadline = time.time() + 30
        for th in ths:
            th.join(timeout=max(0.1, deadline - time.time()))
        alive = [i for i, th in enumerate(ths) if th.is_alive()]
        later_blocked = False
        if not alive and not state["diverged"]:
            # one more call after all scheduled calls have returned (free running): it must return too, and leave its row
            with cond:
                state["free"] = True
                cond.notify_all()

            def later():
                local.tid = -1
                try:
                    threading.current_thread().subject = LATER
                    agg.evaluate(None, None, LATER)
                except BaseException as e:      # noqa
                    errors["later"] = "%s: %s" % (type(e).__name__, str(e)[:200])
            th = threading.Thread(target=later, daemon=True)
            th.subject = None
            th.start()
            th.join(timeout=10)
            later_blocked = th.is_alive()
        rows = AC.read_table(out)
        return {"rows": rows, "errors": errors, "alive": alive, "diverged": state["diverged"], "stats": stats_seen, "names": names, "position": state["pos"], "steps": len(steps),
                "later_blocked": later_blocked}
    finally:
        with cond:
            state["free"] = True
            cond.notify_all()
        shutil.rmtree(tmp, ignore_errors=True)


def _replay_forked(case):
    """the same calls made by forked worker processes, one after another (a legal interleaving): every worker is forked from the parent after the
    aggregator was constructed, so it shares the module's locks and the files but owns a copy of the aggregator object"""
    import os
    import shutil
    import tempfile
    import importlib
    import panoptica.panoptica_aggregator as A
    importlib.reload(A)
    names = [NAMES.get(x, "subject_%s" % x) for x in case["names"]]
    progs = case["thread_prog"]
    order = []
    for st in case["steps"]:
        if st["thread"] not in order:
            order.append(st["thread"])
    order += [t for t in range(len(progs)) if t not in order]
    tmp = tempfile.mkdtemp(prefix="pv_c16f_")
    out = os.path.join(tmp, "results.tsv")

    class Ev(AC.StubEvaluator):
        resulting_metric_keys = ["tp"]

        def evaluate(self, pred, ref, **kw):
            return {"g": (AC.Res({"tp": float(len(kw.get("subject_name") or Ev.current))}), None)}
    try:
        agg = A.Panoptica_Aggregator(Ev(), out)
        blocked, failed = [], {}
        for t in order + ["later"]:
            name = LATER if t == "later" else names[t]
            pid = os.fork()
            if pid == 0:
                code = 0
                try:
                    if t == "later" or progs[t] == "evaluate":
                        Ev.current = name
                        agg.evaluate(None, None, name)
                    else:
                        agg.make_statistic()
                except BaseException:      # noqa
                    code = 3
                os._exit(code)
            deadline = time.time() + 15
            status = None
            while time.time() < deadline:
                r, st_ = os.waitpid(pid, os.WNOHANG)
                if r:
                    status = st_
                    break
                time.sleep(0.02)
            if status is None:
                blocked.append(t)
                try:
                    os.kill(pid, 9)
                    os.waitpid(pid, 0)
                except OSError:
                    pass
                break
            if os.WEXITSTATUS(status) != 0:
                failed[t] = os.WEXITSTATUS(status)
        return {"rows": AC.read_table(out), "blocked": blocked, "failed": failed, "names": names, "order": order}
    finally:
        shutil.rmtree(tmp, ignore_errors=True)


def _forked_verdict(case):
    obs = _replay_forked(case)
    names, progs = obs["names"], case["thread_prog"]
    submitted = sorted({names[t] for t in range(len(progs)) if progs[t] == "evaluate"} | {LATER})
    how = "forked worker processes making the calls one after another (%s, then a later call)" % ", ".join("%s(%s)" % (progs[t], names[t] if progs[t] == "evaluate" else "") for t in obs["order"])
    if obs["blocked"]:
        return "no_call_blocks_forever: %s: call %s did not return within 15 s" % (how, obs["blocked"]), obs
    if obs["failed"]:
        return "only_complete_rows_are_read: %s: calls raised %s" % (how, obs["failed"]), obs
    rows = obs["rows"] or []
    if not rows or rows[0] != ["subject_name", "g-tp"]:
        return "exactly_one_row_per_distinct_subject: %s: header missing: %s" % (how, rows[:1]), obs
    for s_ in submitted:
        mine = [r for r in rows[1:] if r and r[0] == s_]
        if len(mine) != 1:
            return "exactly_one_row_per_distinct_subject: %s: subject %r has %d rows in %s" % (how, s_, len(mine), rows), obs
    return None, obs


def real_schedule(case, mode, expect):
    obs = _replay_schedule(case)
    out = _thread_verdict(case, obs)
    if mode == "violation" and not out.get("violates"):
        # the model's workers each own a copy of the aggregator object (forked processes); a schedule that threads sharing one object do not
        # reproduce is tried as forked processes making the same calls sequentially
        fb, fobs = _forked_verdict(case)
        if fb is not None:
            return {"match": True, "violates": True, "reason": fb, "observed": {"rows": fobs["rows"], "execution": "forked processes"}}
    return out


def _thread_verdict(case, obs):
    names = obs["names"]
    progs = case["thread_prog"]
    submitted = sorted({names[t] for t in range(len(progs)) if progs[t] == "evaluate"} | {LATER})
    want_value = {s: str(float(len(s))) for s in submitted}
    bad = None
    if obs["diverged"]:
        return {"error": "schedule replay diverged: %s" % obs["diverged"], "observed": {k: obs[k] for k in ("position", "steps")}}
    if obs["alive"]:
        bad = "no_call_blocks_forever: calls of threads %s did not return within 30 s" % obs["alive"]
    elif obs.get("later_blocked"):
        bad = "no_call_blocks_forever: after the scheduled calls (%s) had all returned, a later evaluate call did not return within 10 s (a lock is left held)" % ", ".join(
            "%s(%s)" % (progs[t], names[t] if progs[t] == "evaluate" else "") for t in range(len(progs)))
    elif obs["errors"]:
        bad = "only_complete_rows_are_read: %s" % obs["errors"]
    else:
        rows = obs["rows"] or []
        if not rows or rows[0] != ["subject_name", "g-tp"]:
            bad = "exactly_one_row_per_distinct_subject: header missing: %s" % rows[:1]
        for s in submitted:
            mine = [r for r in rows[1:] if r and r[0] == s]
            if len(mine) != 1 and bad is None:
                bad = "exactly_one_row_per_distinct_subject: subject %r has %d rows in %s" % (s, len(mine), rows)
            elif bad is None and (len(mine[0]) != 2 or mine[0][1] != want_value[s]):
                bad = "exactly_one_row_per_distinct_subject: row %s is not the sequential row [%r, %r]" % (mine[0], s, want_value[s])
        if bad is None and [r for r in rows[1:] if not r or r[0] not in submitted]:
            bad = "only_complete_rows_are_read: foreign / broken rows %s" % [r for r in rows[1:] if not r or r[0] not in submitted]
        for tid, seen in obs["stats"].items():
            for s, d in seen.items():
                if bad is None and (s not in submitted or str(d["g"]["tp"]) != want_value[s]):
                    bad = "only_complete_rows_are_read: a statistics object built meanwhile reports %r -> %r" % (s, d)
    return {"match": True, "violates": bad is not None, "reason": bad, "observed": {"rows": obs["rows"], "stats": {str(k): v for k, v in obs["stats"].items()}}}


def real_lockshare(case, mode, expect):
    """a forked worker takes each module lock in turn and holds it; meanwhile the parent (another process of the same family) tries to take it:
    a process-shared lock must be unavailable"""
    import os
    import importlib
    import panoptica.panoptica_aggregator as A
    importlib.reload(A)
    bad = None
    for name in ("inevalfilelock", "filelock"):
        lock = getattr(A, name, None)
        if lock is None:
            return {"error": "module has no %s" % name}
        r1, w1 = os.pipe()
        r2, w2 = os.pipe()
        pid = os.fork()
        if pid == 0:
            try:
                lock.acquire()
                os.write(w1, b"x")          # holding it now
                os.read(r2, 1)              # until the parent has tried
            finally:
                os._exit(0)
        os.read(r1, 1)
        got = bool(lock.acquire(True, 0.5))
        if got:
            lock.release()
        os.write(w2, b"x")
        os.waitpid(pid, 0)
        for fd in (r1, w1, r2, w2):
            os.close(fd)
        if got and bad is None:
            bad = ("module_locks_are_shared_with_forked_workers: %s (%s) was acquired here while a forked worker was holding it - workers do not "
                   "exclude each other, so check-then-claim and row appends of different workers can interleave") % (name, type(lock).__name__)
    return {"match": True, "violates": bad is not None, "reason": bad, "observed": {"locks": {n: type(getattr(A, n, None)).__name__ for n in ("filelock", "inevalfilelock")}}}


REAL = {"schedule": real_schedule, "lockshare": real_lockshare}
