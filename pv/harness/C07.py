"""C07 - ASSD equals the mean of the two directed average surface distances (layer B + erosion/EDT stubs, DESIGN 4/C07).

Symbolically executed (twin): Metric.__call__/_Metric.__call__, _compute_instance_average_symmetric_surface_distance, _average_symmetric_surface_distance,
_average_surface_distance, __surface_distances, _distance_transform_edt (the hand-rolled ft - indices, square, add.reduce, sqrt).
scipy's binary_erosion is its pointwise definition, euclidean_feature_transform returns a nearest background element (tie-invariant for distances),
generate_binary_structure is run for real (concrete arguments).  sqrt(k) of the finitely many squared distances is a real constant with
rational bounds and strict monotonicity, so implementation == oracle is linear arithmetic.
"""
from __future__ import annotations

import itertools

import z3

from ..sym import ENG, SNum, SBool, EngineSignal, declare_bounds
from ..symnp import SArr, WriteToProtected, sqrt_const, sqrt_axioms, cnum
from ..run import H, explore_case, jsonable
from .. import stubs, symnp
from .common import close

PROP = "C07"
META = {
    "bounds": {"quick": "pairs of non-empty Boolean masks 1-D 5, 2-D 2x3 and 1x4 (singleton axis); embedding of a 1-D 3 mask into length 5 at every offset; "
                        "distance-transform glue with arbitrary feature-transform coordinates up to 2^17; two-call histories: same content in another shape (4 / 2x2), "
                        "and a connectivity=2 call followed by the default call on 3x3 masks (plus-shaped centre fixed to foreground, corners free)",
               "thorough": "1-D 7, 2-D 2x4, 3-D 2x2x2 and 1x2x3"},
    "stubs": ["scipy.ndimage.binary_erosion := pointwise definition with the structure actually passed, outside = background",
              "scipy euclidean_feature_transform := index of a nearest background element (ties: first in scan order; only the tie-invariant distance is consumed)",
              "sqrt(k), k a non-square integer <= 64 := real constant within 1e-9 rational bounds, strictly monotone in k"],
    "assumptions": ["float64 as exact reals (last-ulp of sums/means outside the claim)", "voxelspacing is None (never passed by the package)", "arrays larger than the bound are outside the claim"],
    "nontrivial_rule": "paths on which the two borders differ (ASSD > 0)",
}


def cases(tier):
    # (3x3 was planned for the thorough tier; 18 symbolic voxels exceed what one run can explore and are outside the claim)
    shapes = [(5,), (2, 3), (1, 4)] if tier == "quick" else [(7,), (2, 4), (2, 2, 2), (1, 2, 3)]
    out = []
    for s in shapes:
        n = 1
        for d in s:
            n *= d
        if n >= 6:
            # split over the worker processes by fixing four voxels (six for 8-voxel masks: 64 shards)
            for bits in itertools.product((False, True), repeat=4 if n < 8 else 6):
                out.append({"name": "assd_%s_%s" % ("x".join(map(str, s)), "".join("1" if b else "0" for b in bits)), "what": "assd", "shape": s, "fix": list(bits)})
        else:
            out.append({"name": "assd_%s" % "x".join(map(str, s)), "what": "assd", "shape": s})
    out.append({"name": "embed_1d", "what": "embed", "n": 3, "N": 5 if tier == "quick" else 6})
    # history: the value for a pair of masks does not depend on ASSD calls made before in the same process (same content, other shape)
    out.append({"name": "sequence_same_content_other_shape", "what": "sequence", "shapes": [(4,), (2, 2)]})
    # history with an option: a call with the non-default connectivity=2 (full neighbourhood border) first, then the default call on masks of
    # the same dimensionality - 3x3 masks whose plus-shaped centre is foreground, corners free: the centre voxel is interior under the
    # documented face connectivity whatever the corners are
    out.append({"name": "sequence_connectivity2_then_default", "what": "sequence", "shapes": [(3, 3), (3, 3)], "first_kwargs": {"connectivity": 2}, "fixed_true": [1, 3, 4, 5, 7]})
    out.append({"name": "edt_large_offsets", "what": "edt"})
    return out


def coords(shape):
    return list(itertools.product(*[range(s) for s in shape]))


def border_terms(X, shape):
    """z3 Bool per voxel: foreground with a background or out-of-array face neighbour"""
    cs = coords(shape)
    pos = {c: i for i, c in enumerate(cs)}
    out = []
    for c in cs:
        nb = []
        for ax in range(len(shape)):
            for d in (-1, 1):
                q = tuple(x + (d if k == ax else 0) for k, x in enumerate(c))
                nb.append(z3.Not(X[pos[q]]) if q in pos else z3.BoolVal(True))
        out.append(z3.And(X[pos[c]], z3.Or(nb)))
    return out


def directed_sum(bA, bB, shape):
    """sum over border voxels a of A of the distance to the nearest border voxel of B (real term)"""
    cs = coords(shape)
    n = len(cs)
    tot = []
    for i in range(n):
        order = sorted(range(n), key=lambda j: sum((x - y) ** 2 for x, y in zip(cs[i], cs[j])))
        t = None
        for j in reversed(order):
            k = sum((x - y) ** 2 for x, y in zip(cs[i], cs[j]))
            t = sqrt_const(k) if t is None else z3.If(bB[j], sqrt_const(k), t)
        tot.append(z3.If(bA[i], t, z3.RealVal(0)))
    return z3.Sum(tot)


def oracle_assd(X, Y, shape):
    """(value term, counts) with the border counts concretised on the current path so that the quotients are linear"""
    bX, bY = border_terms(X, shape), border_terms(Y, shape)
    n = len(X)
    nX = ENG.concretize(z3.Sum([z3.If(b, 1, 0) for b in bX]), 0, n)
    nY = ENG.concretize(z3.Sum([z3.If(b, 1, 0) for b in bY]), 0, n)
    if nX == 0 or nY == 0:
        return None, bX, bY
    # reference = X, prediction = Y: asd(pred -> ref) and asd(ref -> pred)
    v = (directed_sum(bY, bX, shape) / nY + directed_sum(bX, bY, shape) / nX) / 2
    return v, bX, bY


def run_case(case):
    from ..twin import Twin
    T = Twin()
    Metric = T.mod("panoptica.metrics.metrics").Metric
    AS = T.mod("panoptica.metrics.assd")
    what = case["what"]
    base = sqrt_axioms(symnp.SQRT_MAX)

    def val(x):
        if isinstance(x, SNum):
            return z3.ToReal(x.t) if x.t.sort() == z3.IntSort() else x.t
        if isinstance(x, float) and (x != x or x in (float("inf"), float("-inf"))):
            return x
        from fractions import Fraction
        return z3.RealVal(Fraction(x))

    if what == "assd":
        shape = tuple(case["shape"])
        n = len(coords(shape))
        X = [z3.Bool("r%d" % i) for i in range(n)]
        Y = [z3.Bool("p%d" % i) for i in range(n)]
        base = base + [z3.Or(X), z3.Or(Y)]
        fx = case.get("fix")
        if fx:
            base += [X[0] == fx[0], Y[0] == fx[1], X[1] == fx[2], Y[1] == fx[3]] + ([X[2] == fx[4], Y[2] == fx[5]] if len(fx) > 4 else [])

        def decode(m):
            return {"what": "assd", "shape": list(shape), "ref": [bool(jsonable(v, m)) for v in X], "pred": [bool(jsonable(v, m)) for v in Y]}
        h = H(PROP, case["name"], decode, replay_kind="assd", max_witnesses=40)

        def body():
            ra = SArr(list(X), "bool", shape).protect("caller reference")
            pa = SArr(list(Y), "bool", shape).protect("caller prediction")
            try:
                v = val(Metric.ASSD(ra, pa))
                vs = val(Metric.ASSD(SArr(list(Y), "bool", shape), SArr(list(X), "bool", shape)))
            except EngineSignal:
                raise
            except WriteToProtected as e:
                h.fail("no_input_mutation", detail=str(e))
                return
            except Exception as e:
                h.fail("completes_for_non_empty_masks", detail="%s: %s" % (type(e).__name__, str(e)[:140]))
                return
            want, bX, bY = oracle_assd(X, Y, shape)
            if want is None or isinstance(v, float) or isinstance(vs, float):
                h.fail("finite_for_non_empty_masks", detail={"value": repr(v)})
                return
            h.ok("assd_is_mean_of_directed_average_surface_distances", v == want)
            h.ok("assd_symmetric", v == vs)
            h.ok("assd_non_negative", v >= 0)
            same_border = z3.And([a == b for a, b in zip(bX, bY)])
            h.ok("assd_zero_iff_borders_coincide", (v == 0) == same_border)
            if bool(SBool(z3.Not(same_border))):
                h.note_nontrivial(str(sorted(str(x) for x in ENG.path)[:8]))
            h.witness(expect={"assd": v})
        return explore_case(h, body, base=base, concretize_div=64, time_budget=3000, logic=None)

    if what == "embed":
        n, N = case["n"], case["N"]
        X = [z3.Bool("r%d" % i) for i in range(n)]
        Y = [z3.Bool("p%d" % i) for i in range(n)]
        off = z3.Int("offset")
        declare_bounds(off, 0, N - n)
        base = base + [z3.Or(X), z3.Or(Y), off >= 0, off <= N - n]

        def decode(m):
            return {"what": "embed", "n": n, "N": N, "offset": jsonable(off, m), "ref": [bool(jsonable(v, m)) for v in X], "pred": [bool(jsonable(v, m)) for v in Y]}
        h = H(PROP, case["name"], decode, replay_kind="embed", max_witnesses=20)

        def body():
            o = ENG.concretize(off, 0, N - n)
            try:
                v = val(Metric.ASSD(SArr(list(X), "bool"), SArr(list(Y), "bool")))
                big = lambda m_: SArr([False] * o + list(m_) + [False] * (N - n - o), "bool")
                vb = val(Metric.ASSD(big(X), big(Y)))
            except EngineSignal:
                raise
            except Exception as e:
                h.fail("completes_for_non_empty_masks", detail="%s: %s" % (type(e).__name__, str(e)[:140]))
                return
            if isinstance(v, float) or isinstance(vb, float):
                h.fail("finite_for_non_empty_masks", detail={"value": repr(v), "embedded": repr(vb)})
                return
            h.ok("assd_unaffected_by_embedding", v == vb, detail={"offset": o})
            h.note_nontrivial(o)
            h.witness(expect={"assd": v})
        return explore_case(h, body, base=base, concretize_div=64, time_budget=3000)

    if what == "sequence":
        shp1, shp2 = [tuple(x) for x in case["shapes"]]
        n = len(coords(shp1))
        X = [z3.Bool("r%d" % i) for i in range(n)]
        Y = [z3.Bool("p%d" % i) for i in range(n)]
        base = base + [z3.Or(X), z3.Or(Y)] + [v for i in case.get("fixed_true", []) for v in (X[i], Y[i])]
        kw1 = dict(case.get("first_kwargs") or {})

        def decode(m):
            return {"what": "sequence", "shapes": [list(shp1), list(shp2)], "first_kwargs": kw1, "ref": [bool(jsonable(v, m)) for v in X], "pred": [bool(jsonable(v, m)) for v in Y]}
        h = H(PROP, case["name"], decode, replay_kind="sequence", max_witnesses=30)

        def body():
            try:
                val(Metric.ASSD(SArr(list(X), "bool", shp1), SArr(list(Y), "bool", shp1), **kw1))
                v2 = val(Metric.ASSD(SArr(list(X), "bool", shp2), SArr(list(Y), "bool", shp2)))
            except EngineSignal:
                raise
            except Exception as e:
                h.fail("completes_for_non_empty_masks", detail="%s: %s" % (type(e).__name__, str(e)[:140]))
                return
            want, bX, bY = oracle_assd(X, Y, shp2)
            if want is None or isinstance(v2, float):
                h.fail("finite_for_non_empty_masks", detail={"value": repr(v2)})
                return
            h.ok("value_independent_of_earlier_calls", v2 == want)
            h.note_nontrivial(str(sorted(str(x) for x in ENG.path)[:6]))
            h.witness(expect={"assd": v2})
        return explore_case(h, body, base=base, concretize_div=64, const_hash=True, time_budget=3000)

    # ---- distance-transform glue: squared offsets must be exact for any feature-transform coordinates (no integer wrap)
    BIG = 1 << 17
    Fv = [z3.Int("ft%d" % i) for i in range(2)]
    for v in Fv:
        declare_bounds(v, 0, BIG)
    base = [z3.And(v >= 0, v <= BIG) for v in Fv]
    seen = {}

    def fake_eft(input_array, sampling, ft):
        for i, v in enumerate(Fv):
            ft._write(i, v)
    AS.euclidean_feature_transform = fake_eft
    np_ = T.np
    real_sqrt = np_.sqrt

    def rec_sqrt(a):
        seen["arg"] = a
        return a
    h = H(PROP, case["name"], lambda m: {"what": "edt", "ft": [jsonable(v, m) for v in Fv]}, replay_kind="edt", max_witnesses=4)

    def body():
        seen.clear()
        np_.sqrt = rec_sqrt
        try:
            AS._distance_transform_edt(SArr([True, True], "bool"))
        except EngineSignal:
            raise
        except Exception as e:
            h.fail("edt_completes", detail="%s: %s" % (type(e).__name__, str(e)[:140]))
            return
        finally:
            np_.sqrt = real_sqrt
        arg = seen.get("arg")
        if arg is None:
            h.fail("edt_takes_square_root_of_squared_distance")
            return
        cells = [cnum(c) for c in arg.cells]
        cells = [z3.ToReal(c) if c.sort() == z3.IntSort() else c for c in cells]
        h.ok("squared_distance_exact_for_any_extent", z3.And([c == z3.ToReal((Fv[i] - i) * (Fv[i] - i)) for i, c in enumerate(cells)]), detail={"dtype": arg.dtype.name})
        h.note_nontrivial("edt")
        h.note_nontrivial(arg.dtype.name)
        h.witness(expect=None)
    return explore_case(h, body, base=base, logic=None, time_budget=3000)


# ================================================================================================ real-package side
def _assd_oracle(ref, pred):
    import numpy as np
    from . import realcommon as RC
    X = {c for c in RC.coords(ref.shape) if ref[c]}
    Y = {c for c in RC.coords(pred.shape) if pred[c]}
    return RC.assd(X, Y, ref.shape), RC.border(X, ref.shape), RC.border(Y, ref.shape)


def real_assd(case, mode, expect):
    import numpy as np
    from panoptica import Metric
    shape = tuple(case["shape"])
    ref = np.array(case["ref"], dtype=bool).reshape(shape)
    pred = np.array(case["pred"], dtype=bool).reshape(shape)
    r0, p0 = ref.copy(), pred.copy()
    try:
        v = float(Metric.ASSD(ref, pred))
        vs = float(Metric.ASSD(pred.copy(), ref.copy()))
    except Exception as e:
        return {"match": False, "violates": True, "reason": "completes_for_non_empty_masks: %s: %s" % (type(e).__name__, str(e)[:160]), "observed": None}
    want, bX, bY = _assd_oracle(r0, p0)
    bad = None
    if not (np.array_equal(ref, r0) and np.array_equal(pred, p0)):
        bad = "no_input_mutation: masks modified"
    elif not close(v, want, 1e-9):
        bad = "assd_is_mean_of_directed_average_surface_distances: library %r, definition %r" % (v, want)
    elif not close(v, vs, 1e-12):
        bad = "assd_symmetric: %r vs %r" % (v, vs)
    elif (v == 0) != (bX == bY):
        bad = "assd_zero_iff_borders_coincide: %r" % v
    ok = mode != "witness" or expect is None or close(expect["assd"], v, 1e-6)
    return {"match": ok, "why": None if ok else "twin %s real %s" % (expect, v), "violates": bad is not None, "reason": bad, "observed": {"assd": v}}


def real_embed(case, mode, expect):
    import numpy as np
    from panoptica import Metric
    n, N, o = case["n"], case["N"], case["offset"]
    ref, pred = np.array(case["ref"], dtype=bool), np.array(case["pred"], dtype=bool)
    big = lambda m: np.concatenate([np.zeros(o, bool), m, np.zeros(N - n - o, bool)])
    v, vb = float(Metric.ASSD(ref, pred)), float(Metric.ASSD(big(ref), big(pred)))
    bad = None if close(v, vb, 1e-12) else "assd_unaffected_by_embedding: %r alone, %r embedded at offset %d" % (v, vb, o)
    return {"match": True, "violates": bad is not None, "reason": bad, "observed": {"assd": v, "embedded": vb}}


def real_edt(case, mode, expect):
    """realise large feature-transform offsets by two far-apart voxels in a long 1-D mask"""
    import numpy as np
    from panoptica import Metric
    d = max(max(case["ft"]), 2)
    d = min(d, 200000)
    L = d + 3
    ref = np.zeros(L, dtype=bool)
    pred = np.zeros(L, dtype=bool)
    ref[1] = True
    pred[1 + d] = True
    v = float(Metric.ASSD(ref, pred))
    bad = None if close(v, float(d), 1e-9) else "squared_distance_exact_for_any_extent: two single voxels %d apart give ASSD %r" % (d, v)
    return {"match": True, "violates": bad is not None, "reason": bad, "observed": {"distance": d, "assd": v}}


def real_sequence(case, mode, expect):
    import numpy as np
    from panoptica import Metric
    shp1, shp2 = [tuple(x) for x in case["shapes"]]
    ref, pred = np.array(case["ref"], dtype=bool), np.array(case["pred"], dtype=bool)
    Metric.ASSD(ref.reshape(shp1), pred.reshape(shp1), **(case.get("first_kwargs") or {}))
    v2 = float(Metric.ASSD(ref.reshape(shp2), pred.reshape(shp2)))
    want, _, _ = _assd_oracle(ref.reshape(shp2), pred.reshape(shp2))
    bad = None if close(v2, want, 1e-9) else "value_independent_of_earlier_calls: after the same content was evaluated with shape %s%s, shape %s gives %r, definition %r" % (shp1, " and %s" % case["first_kwargs"] if case.get("first_kwargs") else "", shp2, v2, want)
    ok = mode != "witness" or expect is None or close(expect["assd"], v2, 1e-6)
    return {"match": ok, "violates": bad is not None, "reason": bad, "observed": {"assd": v2}}


REAL = {"assd": real_assd, "embed": real_embed, "edt": real_edt, "sequence": real_sequence}
