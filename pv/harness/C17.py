"""C17 - aggregation survives crashes, restarts and neighbouring aggregators (protocol layer by direct symbolic execution, DESIGN 3.2 / 4/C17).

Symbolically executed (twin over the in-memory file model): Panoptica_Aggregator.__init__, evaluate, _save_one_subject, _write_content,
_read_first_row, _load_first_column_entries, the module's two locks.  Symbolic: the initial state of the output file, the CRASH POINT (an
operation index; the session is killed before that lock / file / helper operation, atexit handlers do not run), the submission order of the
restarted session, and - for the neighbour clause - the interleaving of two aggregators writing to sibling files in one directory.
"""
from __future__ import annotations

import z3

from ..sym import ENG, SNum, SBool, EngineSignal, declare_bounds
from ..run import H, explore_case, jsonable
from .. import fsmodel
from . import aggcommon as AC

PROP = "C17"
OUT = "/d/results.tsv"
INIT_STATES = ["absent", "empty", "header_only", "header_s1", "header_s1_s2"]
META = {
    "bounds": {"quick": "2 subjects; every crash point (before each of the <= 40 lock / file / helper operations of constructor and evaluate calls) x 5 initial file states x both resubmission orders; "
                        "two sibling aggregators in one directory with every order of their constructor / evaluate calls (2 subjects each)",
               "thorough": "3 subjects and a second crash in the restarted session"},
    "stubs": ["csv / open / pathlib / os.remove / atexit := in-memory file model; crash granularity = the aggregator module's helper calls and lock operations (torn writes inside one row write are outside the claim)",
              "evaluator := stub object (value is a function of the subject)", "multiprocessing.Lock := model lock (fresh after a crash = new process)"],
    "assumptions": ["a kill leaves the files as written so far and runs no atexit handler", "sessions are sequential (concurrency is C16)"],
    "nontrivial_rule": "paths with a crash between the claim of a subject in the buffer file and the write of its row, or with an initially non-absent file",
}


def cases(tier):
    out = []
    nsub = 2 if tier == "quick" else 3
    for init in range(len(INIT_STATES)):
        out.append({"name": "crash_restart_%s" % INIT_STATES[init], "what": "crash", "init": init, "nsub": nsub, "second_crash": tier == "thorough"})
    out.append({"name": "siblings", "what": "siblings", "nsub": 2})
    out.append({"name": "siblings_same_name_other_directory", "what": "siblings", "nsub": 2, "layout": "dirs"})
    return out


def _setup_twin():
    from ..twin import Twin
    fs = fsmodel.FS()
    mods, fopen = fsmodel.make_modules(fs)
    from ..symstr import Rewrite, EXTRA_BUILTINS, SStr
    eb = dict(EXTRA_BUILTINS)
    eb["open"] = fopen
    T = Twin(fakes=mods, ast_transformers=[Rewrite()], extra_builtins=eb)
    A = T.mod("panoptica.panoptica_aggregator")
    counter = AC.OpCounter()
    AC.instrument(A, counter, fopen)
    return T, A, fs, counter


def _initial_rows(init, header):
    if init == 0:
        return None
    rows = []
    if init >= 2:
        rows.append(list(header))
    if init >= 3:
        rows.append(["s1", fsmodel.NumCell(1), fsmodel.NumCell(0.5)])
    if init >= 4:
        rows.append(["s2", fsmodel.NumCell(2), ""])
    return rows


def _same_name(a, b):
    e = (a == b)
    return e is True or (e is not False and bool(e))


def _model_oracle(rows, subjects):
    if rows is None:
        return "output_file_exists"
    heads = [i for i, r in enumerate(rows) if r and _same_name(r[0], AC.HEADER_CELL)]
    if heads != [0] or len(rows[0]) != 3 or not _same_name(rows[0][1], "g-tp") or not _same_name(rows[0][2], "g-sq"):
        return "header_exactly_once_first"
    for idx, s in enumerate(subjects):
        mine = [r for r in rows[1:] if r and _same_name(r[0], s)]
        if len(mine) != 1:
            return "one_row_per_subject"
        v = mine[0][1].value if isinstance(mine[0][1], fsmodel.NumCell) else mine[0][1]
        sqc = mine[0][2] if len(mine[0]) == 3 else None
        sq_ok = (isinstance(sqc, fsmodel.NumCell) and sqc.value == 0.5) if (idx + 1) % 2 == 1 else sqc == ""
        if len(mine[0]) != 3 or str(v) != str(idx + 1) or not sq_ok:
            return "rows_complete_and_equal_to_uninterrupted_run"
    if [r for r in rows[1:] if not r or not any(_same_name(r[0], s) for s in subjects)]:
        return "no_foreign_rows"
    return None


def run_case(case):
    T, A, fs, counter = _setup_twin()
    nsub = case["nsub"]
    subjects = ["s%d" % (i + 1) for i in range(nsub)]
    ev = AC.StubEvaluator()
    # the first subject's name is a bounded symbolic string (2 printable characters, e.g. with leading / trailing blanks)
    from ..symstr import mk, SStr
    name_ch = [z3.Int("name0_%d" % i) for i in range(2)]
    # ... and differs from every other (concrete) subject name of the case: subjects are distinct
    name_base = [z3.And(c >= 32, c <= 126) for c in name_ch] + [z3.Or(name_ch[0] != ord(o[0]), name_ch[1] != ord(o[1])) for o in subjects[1:]]

    def reset_process():
        for lname in ("filelock", "inevalfilelock"):
            getattr(A, lname).lock.held = False

    if case["what"] == "crash":
        crash_k = z3.Int("crash_at")
        crash2_k = z3.Int("crash2_at")
        rev = z3.Bool("resubmit_reversed")
        base = [crash_k >= -1, crash_k <= 60, crash2_k >= -1, crash2_k <= 60] + name_base
        symbolic_name = case["init"] < 3        # pre-filled files contain the concrete name s1
        if not case["second_crash"]:
            base.append(crash2_k == -1)
        init = case["init"]

        def decode(m):
            names = list(subjects)
            if symbolic_name:
                names[0] = "".join(chr(jsonable(c, m)) for c in name_ch)
            return {"what": "crash", "init": init, "subjects": names, "crash_at": jsonable(crash_k, m), "crash2_at": jsonable(crash2_k, m), "reversed": bool(jsonable(rev, m))}
        h = H(PROP, case["name"], decode, replay_kind="crash", max_witnesses=6)

        def session(order, kvar, tag):
            """one process: constructor + evaluate calls; returns True if it was killed"""
            counter.n = 0
            counter.log = []
            counter.before = lambda k, name, arg: (_ for _ in ()).throw(AC.Crash()) if bool(SBool(kvar == k)) else None
            reset_process()
            fs.atexit = []
            try:
                agg = A.Panoptica_Aggregator(ev, OUT)
                for s in order:
                    ev.current = s
                    ev.current_value = names.index(s) + 1 if not isinstance(s, SStr) else 1
                    agg.evaluate(None, None, s)
            except AC.Crash:
                return True, list(counter.log)
            counter.before = None           # crash points end with the last evaluate call; then a normal interpreter exit
            for f in list(fs.atexit):
                f()
            return False, list(counter.log)

        names = []

        def body():
            fs.__init__()
            fs.dirs.add("/d")
            del names[:]
            names.extend(subjects)
            if symbolic_name:
                names[0] = mk(name_ch)
            rows = _initial_rows(init, [AC.HEADER_CELL, "g-tp", "g-sq"])
            if rows is not None:
                fs.files[OUT] = rows
            killed = False
            try:
                killed, log1 = session(list(names), crash_k, "first")
                order2 = list(reversed(names)) if bool(SBool(rev)) else list(names)
                if case["second_crash"]:
                    k2, _ = session(order2, crash2_k, "second")
                    if k2:
                        session(list(names), z3.IntVal(-1), "third")
                else:
                    session(order2, z3.IntVal(-1), "second")
            except EngineSignal:
                raise
            except Exception as e:
                h.fail("restart_and_resubmission_complete", detail="%s: %s" % (type(e).__name__, str(e)[:140]))
                return
            bad = _model_oracle(fs.files.get(OUT), names)
            h.ok(bad or "final_file_is_header_plus_one_row_per_subject", bad is None, detail={"rows": repr(fs.files.get(OUT))[:300], "killed_before": (log1[-1] if killed and log1 else None)})
            if killed or init > 0:
                h.note_nontrivial((init, killed, str(log1[-1]) if killed and log1 else "", len(log1)))
            h.witness(expect=None)
        return explore_case(h, body, base=base, const_hash=True, time_budget=3000)

    # ---- neighbouring aggregators in one directory
    OA, OB = "/d/scores.fold1.tsv", "/d/scores.fold2.tsv"      # sibling outputs whose names share everything up to the first dot
    if case.get("layout") == "dirs":
        OA, OB = "/d/model_a/results.tsv", "/d/model_b/results.tsv"      # equally named outputs in neighbouring directories
    nsteps = 2 + 2 * nsub
    ch = [z3.Int("step%d" % i) for i in range(nsteps)]
    base = [z3.And(c >= 0, c <= 1) for c in ch]

    def decode(m):
        return {"what": "siblings", "subjects": subjects, "choices": [jsonable(c, m) for c in ch], "layout": case.get("layout")}
    h = H(PROP, case["name"], decode, replay_kind="siblings", max_witnesses=10)

    def body():
        fs.__init__()
        fs.dirs.add("/d")
        for d_ in ("/d/model_a", "/d/model_b", "/tmp"):
            fs.dirs.add(d_)
        counter.before = None
        reset_process()
        aggs = {}
        todo = {"A": ["ctor"] + list(subjects), "B": ["ctor"] + list(subjects)}
        seq = []
        try:
            for i in range(nsteps):
                who = "A" if (not todo["B"] or (todo["A"] and ENG.concretize(ch[i], 0, 1) == 0)) else "B"
                act = todo[who].pop(0)
                seq.append(who + ":" + act)
                if act == "ctor":
                    aggs[who] = A.Panoptica_Aggregator(AC.StubEvaluator(), OA if who == "A" else OB)
                else:
                    aggs[who]._Panoptica_Aggregator__panoptica_evaluator.current = act
                    aggs[who].evaluate(None, None, act)
        except EngineSignal:
            raise
        except Exception as e:
            h.fail("sibling_calls_complete", detail="%s: %s: %s" % (seq, type(e).__name__, str(e)[:120]))
            return
        for who, path in (("A", OA), ("B", OB)):
            bad = _model_oracle(fs.files.get(path), subjects)
            h.ok("sibling_" + (bad or "file_is_header_plus_one_row_per_subject"), bad is None, detail={"file": path, "sequence": seq, "rows": repr(fs.files.get(path))[:200]})
        h.note_nontrivial(tuple(seq))
        h.witness(expect=None)
    return explore_case(h, body, base=base, time_budget=3000)


# ================================================================================================ real-package side
def _child(spec, timeout=120):
    import json
    import os
    import subprocess
    import sys
    env = dict(os.environ)
    env["PANOPTICA_CITATION_REMINDER"] = "false"
    p = subprocess.run([sys.executable, "-W", "ignore", "-m", "pv.harness.c17_child", json.dumps(spec)], env=env, capture_output=True, text=True, timeout=timeout)
    return p.returncode, p.stdout[-400:] + p.stderr[-400:]


def real_crash(case, mode, expect):
    import os
    import shutil
    import tempfile
    tmp = tempfile.mkdtemp(prefix="pv_c17_")
    out = os.path.join(tmp, "results.tsv")
    subjects = case["subjects"]
    try:
        init = case["init"]
        if init >= 1:
            with open(out, "w", encoding="utf8", newline="") as f:
                rows = ([["subject_name", "g-tp", "g-sq"]] if init >= 2 else []) + ([["s1", "1", "0.5"]] if init >= 3 else []) + ([["s2", "2", ""]] if init >= 4 else [])
                f.write("".join("\t".join(r) + "\n" for r in rows))
        vals = {s: i + 1 for i, s in enumerate(subjects)}
        rc1, o1 = _child({"out": out, "subjects": subjects, "values": vals, "crash_at": case["crash_at"]})
        order2 = list(reversed(subjects)) if case.get("reversed") else list(subjects)
        rc2, o2 = _child({"out": out, "subjects": order2, "values": vals, "crash_at": case.get("crash2_at", -1)})
        if rc2 == 9:
            rc3, o3 = _child({"out": out, "subjects": subjects, "values": vals, "crash_at": -1})
            rc2, o2 = rc3, o3
        bad = None
        if rc2 != 0:
            bad = "restart_and_resubmission_complete: the restarted session failed: %s" % o2.strip()[-300:]
        else:
            bad = AC.table_oracle(AC.read_table(out), subjects, [vals[s] for s in subjects])
        return {"match": True, "violates": bad is not None, "reason": bad, "observed": {"first_session_exit": rc1, "rows": AC.read_table(out)}}
    finally:
        shutil.rmtree(tmp, ignore_errors=True)


def real_siblings(case, mode, expect):
    import os
    import shutil
    import tempfile
    from panoptica import Panoptica_Aggregator
    tmp = tempfile.mkdtemp(prefix="pv_c17s_")
    subjects = case["subjects"]
    paths = {"A": os.path.join(tmp, "scores.fold1.tsv"), "B": os.path.join(tmp, "scores.fold2.tsv")}
    if case.get("layout") == "dirs":
        paths = {"A": os.path.join(tmp, "model_a", "results.tsv"), "B": os.path.join(tmp, "model_b", "results.tsv")}
        for p_ in paths.values():
            os.makedirs(os.path.dirname(p_), exist_ok=True)
    try:
        aggs, evs = {}, {}
        todo = {"A": ["ctor"] + list(subjects), "B": ["ctor"] + list(subjects)}
        seq = []
        bad = None
        try:
            for c in case["choices"]:
                who = "A" if (not todo["B"] or (todo["A"] and c == 0)) else "B"
                act = todo[who].pop(0)
                seq.append(who + ":" + act)
                if act == "ctor":
                    evs[who] = AC.StubEvaluator()
                    aggs[who] = Panoptica_Aggregator(evs[who], paths[who])
                else:
                    evs[who].current = act
                    aggs[who].evaluate(None, None, act)
        except Exception as e:
            bad = "sibling_calls_complete: %s: %s: %s" % (seq, type(e).__name__, str(e)[:160])
        for who in ("A", "B"):
            if bad is None:
                b = AC.table_oracle(AC.read_table(paths[who]), subjects)
                if b:
                    bad = "sibling_%s (file %s.tsv after %s)" % (b, who.lower(), seq)
        return {"match": True, "violates": bad is not None, "reason": bad, "observed": {"sequence": seq}}
    finally:
        shutil.rmtree(tmp, ignore_errors=True)


REAL = {"crash": real_crash, "siblings": real_siblings}
