"""C11 - exchanging prediction and reference mirrors the result (layers B and C, DESIGN 4/C11).

(a) whole pipeline, two runs in one path: Panoptica_Evaluator.evaluate on (prediction, reference) and on (reference, prediction) of fully
    symbolic label maps; tp equal, fp/fn exchanged, IoU and Dice multisets equal, every RVD value r mirrored to -r/(1+r).
(b) layer C: the real NaiveThresholdMatching loop on a symbolic contingency pattern and on its transpose (free real scores, symmetric metric):
    the assignment is transposed whenever no two competing candidates tie.
"""
from __future__ import annotations

import itertools
from fractions import Fraction

import z3

from ..sym import ENG, SNum, SBool, EngineSignal, shash
from ..symnp import SArr, WriteToProtected
from ..run import H, explore_case, jsonable
from . import e2e
from . import realcommon as RC
from .common import fl, close

PROP = "C11"
METRICS = ["DSC", "IOU", "RVD"]
META = {
    "bounds": {"quick": "(a) unmatched 1-D 3-voxel maps with labels 0..2, matching metric IoU / Dice with a free threshold, and matched 1-D 4-voxel maps; (b) 3x3 instance grids with <= 3 candidate pairs, 2x3 with <= 4",
               "thorough": "(a) 1-D 4 and 2-D 2x2; (b) <= 4 pairs on 3x3"},
    "stubs": ["(b) _calc_overlapping_labels := exact overlap pairs, metric kernel := free symmetric real score per pair", "multiprocessing.Pool := serial"],
    "assumptions": ["ASSD symmetry is C07's obligation (kernel level)", "paths with tied competing candidates are excluded (uniqueness clause)", "size bounds as stated"],
    "nontrivial_rule": "paths with fp != fn or with a non-zero RVD value",
}


def cases(tier):
    out = []
    shp = (3,) if tier == "quick" else (4,)
    for mm in ("IOU", "DSC"):
        for p0, r0 in itertools.product(range(3), repeat=2):
            out.append({"name": "e2e_unmatched_%s_f%d%d" % (mm, p0, r0), "what": "e2e", "input_type": "UNMATCHED_INSTANCE", "matching_metric": mm, "shape": shp, "fix": [p0, r0]})
    for p0, r0 in itertools.product(range(3), repeat=2):
        out.append({"name": "e2e_matched_f%d%d" % (p0, r0), "what": "e2e", "input_type": "MATCHED_INSTANCE", "matching_metric": None, "shape": (4,), "fix": [p0, r0]})
    # semantic input (instances approximated first) with a class id beyond one byte on the prediction side only
    out.append({"name": "e2e_semantic_wide_labels", "what": "e2e", "input_type": "SEMANTIC", "matching_metric": "IOU", "shape": (3,), "fix": None, "dtype": "uint16", "wide": True})
    # per-instance evaluation (crop + kernels) of one matched instance both ways, on longer maps than the whole-pipeline runs
    N = 8 if tier == "quick" else 10
    for f in range(4):
        out.append({"name": "instance_swap_1d_%d_f%d" % (N, f), "what": "instance", "shape": (N,), "fix": f})
    grids = [(3, 3, 3), (2, 3, 4)] if tier == "quick" else [(3, 3, 4), (2, 3, 5)]
    for metric in ("IOU", "DSC"):
        for R, Pn, mp in grids:
            out.append({"name": "matcher_%s_%dx%d_le%d" % (metric, R, Pn, mp), "what": "matcher", "metric": metric, "R": R, "P": Pn, "maxpairs": mp})
    return out


def _run_instance(case):
    from ..twin import get_twin
    T = get_twin()
    IE = T.mod("panoptica.instance_evaluator")
    Metric = T.panoptica.Metric
    shape = tuple(case["shape"])
    pv, rv, base = e2e.sym_arrays(shape, 1, "uint8")
    base += [pv[0] == (case["fix"] & 1), rv[0] == (case["fix"] >> 1), z3.Or([v == 1 for v in pv]), z3.Or([v == 1 for v in rv])]
    mets = [getattr(Metric, m) for m in METRICS]

    def decode(m):
        return {"what": "instance", "shape": list(shape), "pred": [jsonable(v, m) for v in pv], "ref": [jsonable(v, m) for v in rv]}
    h = H(PROP, case["name"], decode, replay_kind="instance", max_witnesses=30)

    def body():
        try:
            a = IE._evaluate_instance(SArr(list(rv), "uint8", shape), SArr(list(pv), "uint8", shape), 1, mets)
            b = IE._evaluate_instance(SArr(list(pv), "uint8", shape), SArr(list(rv), "uint8", shape), 1, mets)
        except EngineSignal:
            raise
        except Exception as e:
            h.fail("instance_evaluation_completes", detail="%s: %s" % (type(e).__name__, str(e)[:120]))
            return
        va = {m.name: e2e.conc(a[m]) for m in mets}
        vb = {m.name: e2e.conc(b[m]) for m in mets}
        for m in ("IOU", "DSC"):
            h.ok("instance_overlap_values_equal", va[m] == vb[m], detail={"metric": m, "forward": str(va[m]), "exchanged": str(vb[m])})
        r = va["RVD"]
        h.ok("instance_rvd_mirrored", r != -1 and vb["RVD"] == -r / (1 + r), detail={"forward": str(r), "exchanged": str(vb["RVD"])})
        if r != 0:
            h.note_nontrivial((str(va["IOU"]), str(r)))
        h.witness(expect=None)
    return explore_case(h, body, base=base, concretize_div=64, time_budget=3000)


def run_case(case):
    if case["what"] == "matcher":
        return _run_matcher(case)
    if case["what"] == "instance":
        return _run_instance(case)
    from ..twin import get_twin
    T = get_twin()
    shape = tuple(case["shape"])
    dt = case.get("dtype", "uint8")
    semantic = case["input_type"] == "SEMANTIC"
    thr = z3.Real("thr_m")
    if case.get("wide"):
        from ..sym import declare_bounds
        n_ = 1
        for d_ in shape:
            n_ *= d_
        pv = [z3.Int("p%d" % i) for i in range(n_)]
        rv = [z3.Int("r%d" % i) for i in range(n_)]
        base = []
        for v in pv:
            declare_bounds(v, 0, 256)
            base.append(z3.Or(v == 0, v == 1, v == 256))
        for v in rv:
            declare_bounds(v, 0, 1)
            base.append(z3.And(v >= 0, v <= 1))
    else:
        pv, rv, base = e2e.sym_arrays(shape, 2, "uint8")
        base += [pv[0] == case["fix"][0], rv[0] == case["fix"][1]]
    base += [thr >= 0, thr <= 1]
    cfg = {"input_type": case["input_type"], "matching_metric": case["matching_metric"], "decision_metric": None, "metrics": METRICS}
    if semantic:
        cfg["backend"] = None
        base.append(thr > z3.Q(1, 2))       # IoU above 1/2: the matching is unique whatever the instances are

    def decode(m):
        return {"what": "e2e", "cfg": cfg, "shape": list(shape), "dtype": dt, "pred": [jsonable(v, m) for v in pv], "ref": [jsonable(v, m) for v in rv], "thr_m": jsonable(thr, m)}
    h = H(PROP, case["name"], decode, replay_kind="swap", max_witnesses=40)

    def body():
        try:
            a = e2e.run_twin(T, e2e.build_evaluator(T, cfg, SNum(thr), None), SArr(list(pv), dt, shape).protect("caller prediction"), SArr(list(rv), dt, shape).protect("caller reference"), METRICS)
            b = e2e.run_twin(T, e2e.build_evaluator(T, cfg, SNum(thr), None), SArr(list(rv), dt, shape), SArr(list(pv), dt, shape), METRICS)
        except EngineSignal:
            raise
        except WriteToProtected as e:
            h.fail("no_input_mutation", detail=str(e))
            return
        except Exception as e:
            h.fail("evaluation_completes", detail="%s: %s" % (type(e).__name__, str(e)[:120]))
            return
        if not semantic:
            C = e2e.Counts(pv, rv, 2, 2)
            if e2e.oracle(C, cfg, SNum(thr), None) is None:
                return
        h.ok("tp_equal", a["tp"] == b["tp"], detail={"forward": a["tp"], "exchanged": b["tp"]})
        h.ok("fp_fn_exchanged", a["fp"] == b["fn"] and a["fn"] == b["fp"], detail={"forward": [a["fp"], a["fn"]], "exchanged": [b["fp"], b["fn"]]})
        for m in ("IOU", "DSC"):
            h.ok("overlap_values_equal", a["lists"][m] == b["lists"][m], detail={"metric": m, "forward": [str(x) for x in a["lists"][m]], "exchanged": [str(x) for x in b["lists"][m]]})
        mirrored = sorted((-r / (1 + r)) for r in a["lists"]["RVD"] if r != -1)
        h.ok("rvd_mirrored", len(mirrored) == len(a["lists"]["RVD"]) and mirrored == b["lists"]["RVD"], detail={"forward": [str(x) for x in a["lists"]["RVD"]], "exchanged": [str(x) for x in b["lists"]["RVD"]]})
        if a["fp"] != a["fn"] or any(r != 0 for r in a["lists"]["RVD"]):
            h.note_nontrivial((a["tp"], a["fp"], a["fn"], tuple(str(x) for x in a["lists"]["RVD"])))
        h.witness(expect={"tp": a["tp"], "fp": a["fp"], "fn": a["fn"]})
    return explore_case(h, body, base=base, concretize_div=64, time_budget=3000)


def _run_matcher(case):
    from ..twin import Twin
    T = Twin()
    F = T.mod("panoptica._functionals")
    IM = T.mod("panoptica.instance_matcher")
    MM = T.mod("panoptica.metrics.metrics")
    PP = T.mod("panoptica.utils.processing_pair")
    metric, R, Pn, maxpairs = case["metric"], case["R"], case["P"], case["maxpairs"]
    met = getattr(MM.Metric, metric)
    ov = [[z3.Bool("ov_%d_%d" % (r, p)) for p in range(Pn)] for r in range(R)]
    sc = [[z3.Real("s_%d_%d" % (r, p)) for p in range(Pn)] for r in range(R)]
    thr = z3.Real("thr")
    base = [z3.Sum([z3.If(ov[r][p], 1, 0) for r in range(R) for p in range(Pn)]) <= maxpairs, thr >= 0, thr <= 1]
    for r in range(R):
        for p in range(Pn):
            base.append(z3.And(sc[r][p] > 0, sc[r][p] <= 1))
    # uniqueness clause: competing candidates (sharing a reference or a prediction) never tie
    cells = [(r, p) for r in range(R) for p in range(Pn)]
    for a, b in itertools.combinations(cells, 2):
        if a[0] == b[0] or a[1] == b[1]:
            base.append(z3.Implies(z3.And(ov[a[0]][a[1]], ov[b[0]][b[1]]), sc[a[0]][a[1]] != sc[b[0]][b[1]]))
    state = {"t": False}

    def free_metric(ref_mask, pred_mask, *a, **k):
        rr = [i for i, c in enumerate(ref_mask.cells) if c is True]
        pp = [i for i, c in enumerate(pred_mask.cells) if c is True]
        if not state["t"]:
            return SNum(sc[rr[0]][pp[0] - R], "float64")
        # transposed run: the "reference" side now carries the original predictions
        return SNum(sc[pp[0] - Pn][rr[0]], "float64")
    met.value._metric_function = free_metric

    def overlap_contract(prediction_arr, reference_arr, ref_labels):
        if not state["t"]:
            return [(r + 1, p + 1) for p in range(Pn) for r in range(R) if SBool(ov[r][p])]
        return [(p + 1, r + 1) for r in range(R) for p in range(Pn) if SBool(ov[r][p])]
    F._calc_overlapping_labels = overlap_contract

    def decode(m):
        return {"what": "matcher", "metric": metric, "many": False, "R": R, "P": Pn, "flags": [[bool(jsonable(ov[r][p], m)) for p in range(Pn)] for r in range(R)],
                "scores": [[jsonable(sc[r][p], m) for p in range(Pn)] for r in range(R)], "thr": jsonable(thr, m), "thr2": jsonable(thr, m)}
    h = H(PROP, case["name"], decode, replay_kind="matcher", max_witnesses=30)

    def body():
        try:
            state["t"] = False
            pair = PP.UnmatchedInstancePair(SArr([0] * R + list(range(1, Pn + 1)), "uint8"), SArr(list(range(1, R + 1)) + [0] * Pn, "uint8"))
            M = {int(p): int(r) for p, r in IM.NaiveThresholdMatching(met, SNum(thr), False)._match_instances(pair).labelmap.items()}
            state["t"] = True
            pair_t = PP.UnmatchedInstancePair(SArr([0] * Pn + list(range(1, R + 1)), "uint8"), SArr(list(range(1, Pn + 1)) + [0] * R, "uint8"))
            Mt = {int(p): int(r) for p, r in IM.NaiveThresholdMatching(met, SNum(thr), False)._match_instances(pair_t).labelmap.items()}
        except EngineSignal:
            raise
        except Exception as e:
            h.fail("matching_completes", detail="%s: %s" % (type(e).__name__, str(e)[:120]))
            return
        finally:
            state["t"] = False
        # forward: prediction -> reference; exchanged run: (original reference, now the prediction) -> (original prediction, now the reference)
        h.ok("assignment_is_transposed", sorted((r, p) for p, r in M.items()) == sorted((r, p) for r, p in Mt.items()), detail={"forward": M, "exchanged": Mt})
        if len(M) >= 1:
            h.note_nontrivial(str(sorted(M.items())))
        h.witness(expect=None)
    return explore_case(h, body, logic="QF_LRA", base=base, time_budget=3000)


# ================================================================================================ real-package side
def real_swap(case, mode, expect):
    import numpy as np
    RC.use_serial_pool(mode == "witness")
    cfg = dict(case["cfg"])
    cfg["matching_threshold"] = fl(case["thr_m"])
    shape = tuple(case["shape"])
    pred = np.array(case["pred"], dtype=case.get("dtype", "uint8")).reshape(shape)
    ref = np.array(case["ref"], dtype=case.get("dtype", "uint8")).reshape(shape)
    want = RC.reference_pipeline(pred, ref, cfg)
    if not want["unique"]:
        return {"match": True, "violates": False, "reason": None, "observed": "tie"}
    try:
        # forward, then exchanged, on the SAME array objects (as a caller comparing both directions would do)
        p1, r1 = pred.copy(), ref.copy()
        a = RC.result_to_dict(RC.build_evaluator(cfg).evaluate(p1, r1, verbose=False)["ungrouped"][0], METRICS)
        mutated = not (np.array_equal(p1, pred) and np.array_equal(r1, ref))
        b = RC.result_to_dict(RC.build_evaluator(cfg).evaluate(r1, p1, verbose=False)["ungrouped"][0], METRICS)
    except Exception as e:
        return {"match": False, "violates": True, "reason": "evaluation_completes: %s: %s" % (type(e).__name__, str(e)[:120]), "observed": None}
    bad = None
    if mutated:
        bad = "no_input_mutation: the forward evaluate modified the caller's arrays (prediction %s -> %s, reference %s -> %s); the exchanged call on the same arrays then gives tp/fp/fn %s vs forward %s" % (
            pred.tolist(), p1.tolist(), ref.tolist(), r1.tolist(), (b["tp"], b["fp"], b["fn"]), (a["tp"], a["fp"], a["fn"]))
    elif a["tp"] != b["tp"]:
        bad = "tp_equal: %d vs %d" % (a["tp"], b["tp"])
    elif (a["fp"], a["fn"]) != (b["fn"], b["fp"]):
        bad = "fp_fn_exchanged: forward fp/fn %d/%d, exchanged %d/%d" % (a["fp"], a["fn"], b["fp"], b["fn"])
    else:
        for m in ("IOU", "DSC"):
            if len(a["lists"][m]) != len(b["lists"][m]) or any(not close(x, y, 1e-12) for x, y in zip(sorted(a["lists"][m]), sorted(b["lists"][m]))):
                bad = "overlap_values_equal: %s %s vs %s" % (m, sorted(a["lists"][m]), sorted(b["lists"][m]))
        mir = sorted(-r / (1 + r) for r in a["lists"]["RVD"] if r != -1)
        if bad is None and (len(mir) != len(b["lists"]["RVD"]) or any(not close(x, y, 1e-9) for x, y in zip(mir, sorted(b["lists"]["RVD"])))):
            bad = "rvd_mirrored: forward %s, exchanged %s" % (a["lists"]["RVD"], b["lists"]["RVD"])
    ok = mode != "witness" or expect is None or all(a[k] == expect[k] for k in ("tp", "fp", "fn"))
    return {"match": ok, "why": None if ok else "twin %s real %s" % (expect, a), "violates": bad is not None, "reason": bad, "observed": None}


def real_matcher(case, mode, expect):
    """realise the abstract contingency pattern as voxel counts (C03's realisation) and match both ways on the real package"""
    from . import C03
    arrs = C03._realise(case)
    if arrs is None:
        return {"match": True, "skipped": "not realisable"} if mode == "witness" else {"error": "abstract case not realisable as voxel counts"}
    try:
        M = C03._real_match(arrs["pred"], arrs["ref"], case["metric"], arrs["thr"], False, True)
        Mt = C03._real_match(arrs["ref"], arrs["pred"], case["metric"], arrs["thr"], False, True)
    except Exception as e:
        return {"match": False, "violates": True, "reason": "matching_completes: %s" % e, "observed": arrs}
    bad = None
    if sorted((r, p) for p, r in M.items()) != sorted((r, p) for r, p in Mt.items()):
        bad = "assignment_is_transposed: forward %s, exchanged %s on pred %s ref %s thr %s" % (M, Mt, arrs["pred"], arrs["ref"], arrs["thr"])
    return {"match": True, "violates": bad is not None, "reason": bad, "observed": None}


def real_instance(case, mode, expect):
    import numpy as np
    from panoptica import Metric
    from panoptica.instance_evaluator import _evaluate_instance
    shape = tuple(case["shape"])
    pred = np.array(case["pred"], dtype=np.uint8).reshape(shape)
    ref = np.array(case["ref"], dtype=np.uint8).reshape(shape)
    mets = [getattr(Metric, m) for m in METRICS]
    a = _evaluate_instance(ref.copy(), pred.copy(), 1, mets)
    b = _evaluate_instance(pred.copy(), ref.copy(), 1, mets)
    bad = None
    for m in (Metric.IOU, Metric.DSC):
        if not close(float(a[m]), float(b[m]), 1e-12):
            bad = "instance_overlap_values_equal: %s %r vs %r (pred %s ref %s)" % (m.name, a[m], b[m], pred.tolist(), ref.tolist())
    r = float(a[Metric.RVD])
    if bad is None and (r == -1 or not close(float(b[Metric.RVD]), -r / (1 + r), 1e-9)):
        bad = "instance_rvd_mirrored: forward %r, exchanged %r (pred %s ref %s)" % (r, b[Metric.RVD], pred.tolist(), ref.tolist())
    return {"match": True, "violates": bad is not None, "reason": bad, "observed": None}


REAL = {"swap": real_swap, "matcher": real_matcher, "instance": real_instance}
