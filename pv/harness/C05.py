"""C05 - instance approximation yields exactly the connected components (layer B + CC contract stubs, DESIGN 4/C05).

Symbolically executed (twin): InstanceApproximator.approximate_instances (negative-value rejection, dtype selection),
ConnectedComponentsInstanceApproximator.__init__/_approximate_instances, _connected_components (dispatch and the literal back-end calls),
_get_smallest_fitting_uint, SemanticPair, _ProcessingPair.set_dtype, UnmatchedInstancePair.
The compiled back ends are contract stubs parametrised by the ARGUMENTS THE REPO PASSES (connectivity / structure / binarisation); the check decides
how the repo drives them: which back end, on which array, with which connectivity, and that labels and counts reach the result unaltered.
"""
from __future__ import annotations

import z3

from ..sym import ENG, SNum, SBool, EngineSignal, declare_bounds
from ..symnp import SArr, WriteToProtected, cnum
from ..run import H, explore_case, jsonable
from .. import stubs

PROP = "C05"
META = {
    "bounds": {"quick": "semantic maps 1-D 4, 2-D 2x2 and 3-D 1x2x2 with values 0..2 (signed int64 and uint8) plus 1-D 2 with int64 values -1..300 (dtype boundary 256 inside), backend in {default, cc3d, scipy}; glue run with arbitrary back-end labels up to 2^20; "
                        "two-call sequences on one approximator object across dimensionalities",
               "thorough": "1-D 2 with int64 values -1..70000 (dtype boundaries 256 and 65536 inside); 1-D 6 and 2-D 2x3 (values -1..2, both arrays symbolic, uint8 and int64); 2-D 3x3 and 3-D 2x2x2 with binary uint8 label maps (every foreground pattern on both sides)"},
    "stubs": ["cc3d.connected_components / scipy.ndimage.label := any labelling into exactly the connected components under the connectivity / structure / binarisation arguments actually passed (labels 1..N all used)"],
    "assumptions": ["the compiled back ends meet their documented contract (checked on every witness against an independent flood fill on the real package)",
                    "arrays larger than the bound are outside the claim"],
    "nontrivial_rule": "paths with at least two foreground voxels on one side",
}


def cases(tier):
    shapes = [(4,), (2, 2), (1, 2, 2)] if tier == "quick" else [(6,), (2, 3), (3, 3), (2, 2, 2)]
    out = []
    for shp in shapes:
        big = shp in ((3, 3), (2, 2, 2))
        for be in (None, "cc3d", "scipy"):
            for dt in ("uint8", "int64"):
                if tier == "quick" and dt == "int64" and be is not None:
                    continue
                if big and dt == "int64":
                    continue
                c = {"name": "%s_%s_%s" % ("x".join(map(str, shp)), be, dt), "what": "cc", "shape": shp, "backend": be, "dtype": dt}
                if big:
                    # 8-9 voxels: binary label maps (every foreground pattern on both sides)
                    c.update(maxval=1)
                out.append(c)
    # wide semantic label values (up to 70000: both dtype boundaries 256 and 65536 lie inside): the unsigned dtype chosen from the label
    # ranges of BOTH sides must hold every value of both maps - the back end has to see the caller's values, not wrapped ones
    for shp in [(2,)]:
        for be in (None, "cc3d"):
            out.append({"name": "%s_%s_int64_wide" % ("x".join(map(str, shp)), be), "what": "cc", "shape": shp, "backend": be, "dtype": "int64", "maxval": 300 if tier == "quick" else 70000})
    out.append({"name": "glue_arbitrary_backend_labels", "what": "glue"})
    out.append({"name": "sequence_2d_then_3d", "what": "sequence", "shapes": [(2, 2), (1, 2, 2)]})
    out.append({"name": "sequence_3d_then_2d", "what": "sequence", "shapes": [(1, 2, 2), (2, 2)]})
    # the SAME map labelled under one back end and then under the other in one process: each call follows its own connectivity
    out.append({"name": "sequence_same_map_cc3d_then_scipy", "what": "sequence", "shapes": [(2, 2), (2, 2)], "backends": ["cc3d", "scipy"], "same": True})
    out.append({"name": "sequence_same_map_scipy_then_cc3d", "what": "sequence", "shapes": [(2, 2), (2, 2)], "backends": ["scipy", "cc3d"], "same": True})
    return out


def _expected(backend, ndim):
    be = backend or ("cc3d" if ndim >= 3 else "scipy")
    return be, (be == "cc3d")      # (backend, full connectivity and value-distinguishing)


def _check_calls(h, calls, inputs, outs, counts, be_cfg, ndim):
    """obligations on how the back end was driven; inputs/outs: {'pred': SArr, 'ref': SArr}"""
    be, full = _expected(be_cfg, ndim)
    tag = "cc3d" if be == "cc3d" else "label"
    used = 0
    for side in ("pred", "ref"):
        vin = [cnum(c) for c in inputs[side].cells]
        vout = [cnum(c) for c in outs[side].cells]
        empty = z3.And([v == 0 for v in vin])
        if bool(SBool(empty)):
            h.ok("empty_side_stays_empty", z3.And([o == 0 for o in vout]) if True else None)
            h.ok("empty_side_count_zero", (SNum(counts[side]) == 0).t if not isinstance(counts[side], int) else counts[side] == 0)
            continue
        if used >= len(calls):
            h.fail("backend_called_for_non_empty_side", detail={"side": side})
            continue
        name, info = calls[used]
        used += 1
        h.ok("documented_backend_used", name == tag, detail={"used": name, "documented": tag, "ndim": ndim})
        if name == "cc3d":
            h.ok("documented_connectivity", info["full"] is True and info["structure"] is None, detail=str(info["full"]))
        else:
            h.ok("documented_connectivity", info["full"] is False and info["structure"] is None, detail=str(info["structure"]))
        cin = [cnum(c) for c in info["input"].cells]
        h.ok("backend_sees_the_semantic_map", info["shape"] == inputs[side].shape and z3.And([a == b for a, b in zip(cin, vin)]), detail={"side": side})
        h.ok("labels_reach_the_result", z3.And([o == l for o, l in zip(vout, info["L"])]), detail={"side": side})
        h.ok("count_is_number_of_components", (SNum(counts[side]).t if not isinstance(counts[side], SNum) else counts[side].t) == info["N"], detail={"side": side})
    h.ok("no_superfluous_backend_calls", used == len(calls))


def run_case(case):
    from ..twin import Twin
    T = Twin()
    IA = T.mod("panoptica.instance_approximator")
    PP = T.mod("panoptica.utils.processing_pair")
    CO = T.mod("panoptica.utils.constants")
    F = T.mod("panoptica._functionals")
    what = case["what"]

    def backend_obj(be):
        return None if be is None else getattr(CO.CCABackend, be)

    if what == "cc":
        shape, dt = tuple(case["shape"]), case["dtype"]
        n = 1
        for s_ in shape:
            n *= s_
        lo = -1 if dt == "int64" else 0
        hi = case.get("maxval", 2)
        pv = [z3.Int("p%d" % i) for i in range(n)]
        rv = [z3.Int("r%d" % i) for i in range(n)]
        base = []
        for v in pv + rv:
            declare_bounds(v, lo, hi)
            base.append(z3.And(v >= lo, v <= hi))
        if case.get("fix_ref"):
            base += [rv[0] == 1] + [v == 0 for v in rv[1:]]

        def decode(m):
            return {"what": "cc", "shape": list(shape), "dtype": dt, "backend": case["backend"], "pred": [jsonable(v, m) for v in pv], "ref": [jsonable(v, m) for v in rv]}
        h = H(PROP, case["name"], decode, replay_kind="approx", max_witnesses=40)

        def body():
            pa = SArr(list(pv), dt, shape).protect("caller prediction")
            ra = SArr(list(rv), dt, shape).protect("caller reference")
            neg = z3.Or([v < 0 for v in pv + rv])
            try:
                pair = PP.SemanticPair(pa, ra)
                up = IA.ConnectedComponentsInstanceApproximator(backend_obj(case["backend"])).approximate_instances(pair)
            except EngineSignal:
                raise
            except WriteToProtected as e:
                h.fail("no_input_mutation", detail=str(e))
                return
            except AssertionError as e:
                h.ok("rejects_only_negative_values", neg, detail=str(e)[:100])
                h.witness(expect={"raises": True})
                return
            except Exception as e:
                h.fail("completes", detail="%s: %s" % (type(e).__name__, str(e)[:140]))
                return
            h.ok("negative_values_rejected", z3.Not(neg))
            h.ok("result_is_unmatched_instance_pair_of_unsigned_dtype", type(up).__name__ == "UnmatchedInstancePair" and up.prediction_arr.dtype.kind == "u" and up.reference_arr.dtype == up.prediction_arr.dtype)
            _check_calls(h, list(stubs.CALLS), {"pred": pa, "ref": ra}, {"pred": up.prediction_arr, "ref": up.reference_arr},
                         {"pred": up.n_prediction_instance, "ref": up.n_reference_instance}, case["backend"], len(shape))
            fgp = z3.Sum([z3.If(v != 0, 1, 0) for v in pv])
            if bool(SBool(fgp >= 2)):
                h.note_nontrivial(str(sorted(str(z3.simplify(x)) for x in ENG.path)[:5]))
            h.witness(expect={"raises": False})
        return explore_case(h, body, base=base, time_budget=3000)

    if what == "glue":
        # the glue around the back end must hand on whatever labelling it returns, for ANY number of components
        n = 3
        Lp = [z3.Int("Lp%d" % i) for i in range(n)]
        Lr = [z3.Int("Lr%d" % i) for i in range(n)]
        Np, Nr = z3.Int("Np"), z3.Int("Nr")
        BIG = 1 << 20
        base = []
        for v in Lp + Lr + [Np, Nr]:
            declare_bounds(v, 0, BIG)
            base.append(z3.And(v >= 0, v <= BIG))
        base += [z3.And([l <= Np for l in Lp]), z3.And([l <= Nr for l in Lr]), Lp[0] >= 1, Lr[0] >= 1]
        seq = []

        def fake_cc(array, cca_backend):
            k = len(seq)
            seq.append(k)
            return (SArr(list(Lp if k == 0 else Lr), "uint32"), SNum(Np if k == 0 else Nr))
        IA._connected_components = fake_cc

        def decode(m):
            return {"what": "glue", "Lp": [jsonable(v, m) for v in Lp], "Lr": [jsonable(v, m) for v in Lr], "Np": jsonable(Np, m), "Nr": jsonable(Nr, m)}
        h = H(PROP, case["name"], decode, replay_kind="glue", max_witnesses=10)

        def body():
            del seq[:]
            pair = PP.SemanticPair(SArr([1, 1, 1], "uint8"), SArr([1, 1, 1], "uint8"))
            try:
                up = IA.ConnectedComponentsInstanceApproximator(CO.CCABackend.scipy).approximate_instances(pair)
            except EngineSignal:
                raise
            except Exception as e:
                h.fail("completes", detail="%s: %s" % (type(e).__name__, str(e)[:140]))
                return
            po, ro = [cnum(c) for c in up.prediction_arr.cells], [cnum(c) for c in up.reference_arr.cells]
            h.ok("labels_not_truncated_by_the_chosen_dtype", z3.And([a == b for a, b in zip(po, Lp)] + [a == b for a, b in zip(ro, Lr)]), detail={"dtype": up.prediction_arr.dtype.name})
            h.ok("counts_handed_on", z3.And(SNum(up.n_prediction_instance).t == Np, SNum(up.n_reference_instance).t == Nr))
            h.note_nontrivial(up.prediction_arr.dtype.name)
            h.note_nontrivial("glue")
            h.witness(expect=None)
        return explore_case(h, body, base=base, time_budget=3000)

    # ---- sequence: the default back end is decided per call, whatever the same object processed before
    shapes = [tuple(s) for s in case["shapes"]]
    vs = []
    base = []
    for k, shp in enumerate(shapes):
        n = 1
        for s_ in shp:
            n *= s_
        pv = [z3.Int("p%d_%d" % (k, i)) for i in range(n)]
        for v in pv:
            declare_bounds(v, 0, 1)
            base.append(z3.And(v >= 0, v <= 1))
        base.append(z3.Or([v == 1 for v in pv]))
        vs.append(pv)
    bes = case.get("backends") or [None] * len(shapes)
    if case.get("same"):
        base += [a == b for a, b in zip(vs[0], vs[1])]

    def decode(m):
        return {"what": "sequence", "shapes": [list(s) for s in shapes], "maps": [[jsonable(v, m) for v in pv] for pv in vs], "backends": list(bes)}
    h = H(PROP, case["name"], decode, replay_kind="sequence", max_witnesses=10)

    def body():
        # a pristine copy of the package per explored path: module-level state left by one sequence must not leak into the next path
        T2 = Twin()
        IA = T2.mod("panoptica.instance_approximator")
        PP = T2.mod("panoptica.utils.processing_pair")
        CO2 = T2.mod("panoptica.utils.constants")
        ap = IA.ConnectedComponentsInstanceApproximator()
        for k, shp in enumerate(shapes):
            stubs.reset_calls()
            if case.get("backends"):
                ap = IA.ConnectedComponentsInstanceApproximator(None if bes[k] is None else getattr(CO2.CCABackend, bes[k]))
            a = SArr(list(vs[0] if case.get("same") else vs[k]), "uint8", shp)
            try:
                up = ap.approximate_instances(PP.SemanticPair(a, a.copy()))
            except EngineSignal:
                raise
            except Exception as e:
                h.fail("completes", detail="%s: %s" % (type(e).__name__, str(e)[:140]))
                return
            _check_calls(h, list(stubs.CALLS), {"pred": a, "ref": a}, {"pred": up.prediction_arr, "ref": up.reference_arr},
                         {"pred": up.n_prediction_instance, "ref": up.n_reference_instance}, bes[k], len(shp))
        h.note_nontrivial("seq")
        h.note_nontrivial(str(shapes))
        h.witness(expect=None)
    return explore_case(h, body, base=base, time_budget=3000)


# ================================================================================================ real-package side
def _oracle(arr, out, count, backend, ndim):
    """property C05 on concrete arrays via an independent flood fill"""
    import numpy as np
    from . import realcommon as RC
    be, full = _expected(backend, ndim)
    arr, out = np.asarray(arr), np.asarray(out)
    if ((arr != 0) != (out != 0)).any():
        return "foreground_unchanged: input %s -> %s" % (arr.tolist(), out.tolist())
    comps = RC.components(arr, full, full)
    labs = sorted(set(int(x) for x in out.ravel() if x))
    if labs != list(range(1, len(comps) + 1)):
        return "labels_exactly_1_to_n: labels %s for %d components (%s connectivity)" % (labs, len(comps), "full" if full else "face")
    for comp in comps:
        if len({int(out[c]) for c in comp}) != 1:
            return "joinable_voxels_left_separate: component %s carries labels %s" % (sorted(comp), sorted({int(out[c]) for c in comp}))
    if len({int(out[next(iter(c))]) for c in comps}) != len(comps):
        return "distinct_components_share_a_label"
    if int(count) != len(comps):
        return "count_is_number_of_components: reported %s, components %d" % (count, len(comps))
    return None


def real_approx(case, mode, expect):
    import numpy as np
    from panoptica import ConnectedComponentsInstanceApproximator, SemanticPair, CCABackend
    shape = tuple(case["shape"])
    pred = np.array(case["pred"], dtype=case["dtype"]).reshape(shape)
    ref = np.array(case["ref"], dtype=case["dtype"]).reshape(shape)
    p0, r0 = pred.copy(), ref.copy()
    be = case["backend"]
    neg = bool((pred < 0).any() or (ref < 0).any())
    try:
        up = ConnectedComponentsInstanceApproximator(None if be is None else getattr(CCABackend, be)).approximate_instances(SemanticPair(pred, ref))
        raised = None
    except AssertionError as e:
        raised = e
    except Exception as e:
        return {"match": False, "violates": True, "reason": "completes: %s: %s" % (type(e).__name__, str(e)[:160]), "observed": None}
    bad = None
    if not (np.array_equal(pred, p0) and np.array_equal(ref, r0)):
        bad = "no_input_mutation: the semantic maps were modified"
    elif raised is not None:
        bad = None if neg else "rejects_only_negative_values: %s" % raised
    elif neg:
        bad = "negative_values_rejected: accepted %s / %s" % (p0.tolist(), r0.tolist())
    else:
        bad = _oracle(p0, up.prediction_arr, up.n_prediction_instance, be, len(shape)) or _oracle(r0, up.reference_arr, up.n_reference_instance, be, len(shape))
    ok = mode != "witness" or expect is None or expect.get("raises") == (raised is not None)
    return {"match": ok, "why": None if ok else "twin raises=%s, real raises=%s" % (expect.get("raises"), raised is not None), "violates": bad is not None, "reason": bad,
            "observed": None if raised is not None else {"pred": np.asarray(up.prediction_arr).tolist(), "ref": np.asarray(up.reference_arr).tolist()}}


def real_glue(case, mode, expect):
    """realise a back end returning N components by a 1-D map with N isolated voxels (N capped for the replay)"""
    import numpy as np
    from panoptica import ConnectedComponentsInstanceApproximator, SemanticPair, CCABackend
    N = min(max(case["Np"], case["Nr"], 1), 70000)
    a = np.zeros(2 * N + 1, dtype=np.uint8)
    a[1::2] = 1
    up = ConnectedComponentsInstanceApproximator(CCABackend.scipy).approximate_instances(SemanticPair(a, a.copy()))
    bad = _oracle(a, up.prediction_arr, up.n_prediction_instance, "scipy", 1)
    if bad:
        bad = "labels_not_truncated_by_the_chosen_dtype: with %d components: %s" % (N, bad[:200])
    return {"match": True, "violates": bad is not None, "reason": bad, "observed": {"N": N, "dtype": str(np.asarray(up.prediction_arr).dtype)}}


def real_sequence(case, mode, expect):
    import numpy as np
    from panoptica import ConnectedComponentsInstanceApproximator, SemanticPair, CCABackend
    ap = ConnectedComponentsInstanceApproximator()
    bad = None
    bes = case.get("backends") or [None] * len(case["shapes"])
    for shp, vals, be in zip(case["shapes"], case["maps"], bes):
        a = np.array(vals, dtype=np.uint8).reshape(tuple(shp))
        if case.get("backends"):
            ap = ConnectedComponentsInstanceApproximator(None if be is None else getattr(CCABackend, be))
        up = ap.approximate_instances(SemanticPair(a, a.copy()))
        bad = bad or _oracle(a, up.prediction_arr, up.n_prediction_instance, be, len(shp))
    if bad:
        bad = "documented_backend_used: after %s: %s" % ("the same map was labelled under the other back end" if case.get("backends") else "an input of another dimensionality", bad)
    return {"match": True, "violates": bad is not None, "reason": bad, "observed": None}


REAL = {"approx": real_approx, "glue": real_glue, "sequence": real_sequence}
