"""C06 - Dice, IoU, RVD and clDice equal their set-theoretic definitions (layer B, DESIGN 4/C06).

Symbolically executed (twin): Metric.__call__, _Metric.__call__ (label selection, np.isin union),
_compute_instance_volumetric_dice/_compute_dice_coefficient, _compute_instance_iou/_compute_iou,
_compute_instance_relative_volume_difference/_compute_relative_volume_difference,
_compute_centerline_dice/_compute_centerline_dice_coefficient/cl_score.
"""
from __future__ import annotations

from fractions import Fraction

import z3

from ..sym import ENG, SNum, SBool, EngineSignal, declare_bounds
from ..symnp import SArr, WriteToProtected
from ..run import H, explore_case, jsonable, to_ndarray
from .common import frac, close

PROP = "C06"
KMAX = 3
META = {
    "bounds": {"quick": "arrays 1-D 5, 2-D 2x2; voxel labels 0..3; reference label 0..4, prediction label 0..4 or a list of two; "
                        "no-selection mode on Boolean masks; clDice on 2x2 with an arbitrary skeleton subset; "
                        "two-call history on 1-D 3: score, overwrite the same reference array object in place with arbitrary contents, score again",
               "thorough": "1-D 7, 2-D 2x3, 3-D 2x2x2; same label space; clDice on 2x3 and 1x2x2 (2x2x2 runs into the solver timeout and is outside the claim)"},
    "stubs": ["skimage skeletonize/skeletonize_3d := arbitrary subset of the mask (same subset for the same input)"],
    "assumptions": ["float64 modelled as exact rationals (one correctly rounded division per score; DESIGN 2.3)",
                    "integer/integer score quotients are decided per concrete (numerator, denominator) pair by forking",
                    "volumes >= 2^26 and arrays larger than the bound are outside the claim; skeletonisation itself is trusted"],
    "nontrivial_rule": "paths on which both selected masks are non-empty and overlap partially (0 < |X&Y| < |X|+|Y|-|X&Y|)",
}


def cases(tier):
    shapes = [(5,), (2, 2)] if tier == "quick" else [(7,), (2, 3), (2, 2, 2)]
    out = []
    for shp in shapes:
        for mode in ("none", "int", "list2"):
            out.append({"name": "vol_%s_%s" % ("x".join(map(str, shp)), mode), "shape": shp, "mode": mode, "what": "vol"})
    # label arithmetic: unsigned 0/1 masks without selection, and labels / requested indices over the whole dtype range and beyond
    for dt in (("uint8",) if tier == "quick" else ("uint8", "uint16", "uint64")):
        out.append({"name": "vol_3_none_%s" % dt, "shape": (3,), "mode": "none", "what": "vol", "dtype": dt})
        for mode in ("int", "list2"):
            out.append({"name": "vol_3_%s_big_%s" % (mode, dt), "shape": (3,), "mode": mode, "what": "vol", "dtype": dt, "big": True})
    # history: the caller computes a metric, edits the SAME reference array object in place, and asks again with the same indices -
    # the second answer must be the definition applied to the array's current contents (no identity-keyed memo of selected masks)
    for mode in ("int", "list2"):
        out.append({"name": "vol_3_%s_after_inplace_edit" % mode, "shape": (3,), "mode": mode, "what": "vol", "edit": True})
    # (2x2x2 clDice was tried for the thorough tier: the harmonic-mean obligation over 16 voxels + 16 skeleton choices runs into the solver timeout)
    for shp in ([(2, 2)] if tier == "quick" else [(2, 3), (1, 2, 2)]):
        out.append({"name": "cldice_%s" % "x".join(map(str, shp)), "shape": shp, "mode": "none", "what": "cl"})
    # clDice called on whole label maps (no selection) hands the caller's own arrays to the kernel: they must come back untouched
    out.append({"name": "cldice_label_maps_untouched", "shape": (2, 2), "mode": "none", "what": "cl", "dtype": "uint8", "maxval": 2, "mut_only": True})
    return out


def _count(conds):
    return z3.Sum([z3.If(c, 1, 0) for c in conds]) if conds else z3.IntVal(0)


def run_case(case):
    from ..twin import get_twin
    T = get_twin()
    Metric = T.mod("panoptica.metrics.metrics").Metric
    shape, mode = tuple(case["shape"]), case["mode"]
    n = 1
    for s in shape:
        n *= s
    base = []
    big = case.get("big", False)
    if mode == "none" and case.get("dtype"):
        # 0/1 masks stored in an unsigned integer dtype
        dt = case["dtype"]
        rv = [z3.Int("r%d" % i) for i in range(n)]
        pv = [z3.Int("p%d" % i) for i in range(n)]
        for v in rv + pv:
            declare_bounds(v, 0, case.get("maxval", 1))
            base.append(z3.And(v >= 0, v <= case.get("maxval", 1)))
        X, Y = [v == 1 for v in rv], [v == 1 for v in pv]
        ridx = pidx = None
        idx_vars = []
    elif mode == "none":
        rv = [z3.Bool("r%d" % i) for i in range(n)]
        pv = [z3.Bool("p%d" % i) for i in range(n)]
        X, Y = rv, pv
        dt = "bool"
        ridx = pidx = None
        idx_vars = []
    else:
        rv = [z3.Int("r%d" % i) for i in range(n)]
        pv = [z3.Int("p%d" % i) for i in range(n)]
        dt = case.get("dtype", "uint8")
        vmax = KMAX if not big else 2 ** (8 * int(__import__("numpy").dtype(dt).itemsize)) - 1
        imax = KMAX + 1 if not big else max(2 ** 17, vmax)
        for v in rv + pv:
            declare_bounds(v, 0, vmax)
            base.append(z3.And(v >= 0, v <= vmax))
        ri = z3.Int("ridx")
        declare_bounds(ri, 0, imax)
        base.append(z3.And(ri >= 0, ri <= imax))
        ridx = SNum(ri)
        if mode == "int":
            pi = [z3.Int("pidx")]
        else:
            pi = [z3.Int("pidx0"), z3.Int("pidx1")]
        for v in pi:
            declare_bounds(v, 0, imax)
            base.append(z3.And(v >= 0, v <= imax))
        pidx = SNum(pi[0]) if mode == "int" else [SNum(v) for v in pi]
        X = [v == ri for v in rv]
        Y = [z3.Or([v == q for q in pi]) for v in pv]
        idx_vars = [ri] + pi
    qv = []
    if case.get("edit"):
        qv = [z3.Int("q%d" % i) for i in range(n)]
        for v in qv:
            declare_bounds(v, 0, vmax)
            base.append(z3.And(v >= 0, v <= vmax))
    held = {}
    A, B = _count(X), _count(Y)
    I = _count([z3.And(x, y) for x, y in zip(X, Y)])
    U = A + B - I

    def decode(m):
        d = {"shape": list(shape), "dtype": dt, "mode": mode, "what": case["what"], "mut_only": bool(case.get("mut_only")),
             "ref": [jsonable(v, m) for v in rv], "pred": [jsonable(v, m) for v in pv]}
        if mode != "none":
            d["ridx"] = jsonable(idx_vars[0], m)
            d["pidx"] = [jsonable(v, m) for v in idx_vars[1:]]
        if qv:
            d["edit"] = True
            d["ref0"] = [jsonable(v, m) for v in qv]
        return d
    h = H(PROP, case["name"], decode, replay_kind="metric", max_witnesses=60)

    def val(x):
        """metric result -> z3 real term (nan/inf stay Python floats)"""
        if isinstance(x, SNum):
            return z3.simplify(z3.ToReal(x.t) if x.t.sort() == z3.IntSort() else x.t)
        if isinstance(x, float) and (x != x or x in (float("inf"), float("-inf"))):
            return x
        return z3.RealVal(Fraction(x))

    def fin(x):
        return not isinstance(x, float)

    def call(metric, swap=False):
        ref = SArr(list(rv), dt, shape).protect("caller reference")
        pred = SArr(list(pv), dt, shape).protect("caller prediction")
        if qv and not swap:
            ref = held["ref"]
        if swap:
            return metric(pred, ref) if mode == "none" else metric(pred, ref, pidx, ridx)
        if mode == "none":
            return metric(ref, pred)
        return metric(ref, pred, ridx, pidx)

    def guarded(name, metric, defined, swap=False):
        """run a kernel; an exception where the quotient is defined (or a write into the caller's arrays) is a violation"""
        try:
            return True, val(call(metric, swap))
        except EngineSignal:
            raise
        except WriteToProtected as e:
            h.fail("no_input_mutation", detail=str(e))
            return False, None
        except Exception as e:
            h.ok(name + "_no_exception_where_defined", z3.Not(defined), detail="%s: %s" % (type(e).__name__, str(e)[:100]))
            return False, None

    def body_vol():
        exp = {}
        if qv:
            # the caller's own array object: first holds q, is scored once, then is overwritten in place with r
            ro = SArr(list(qv), dt, shape)
            try:
                Metric.DSC(ro, SArr(list(pv), dt, shape), ridx, pidx)
            except EngineSignal:
                raise
            except Exception:
                pass
            for j, v in zip(ro.idx, rv):
                ro.buf.cells[j] = v
            held["ref"] = ro.protect("caller reference")
        ok_d, d = guarded("dice", Metric.DSC, A + B > 0)
        ok_i, i = guarded("iou", Metric.IOU, U > 0)
        ok_r, r = guarded("rvd", Metric.RVD, A > 0)
        ok_d, ok_i, ok_r = ok_d and fin(d), ok_i and fin(i), ok_r and fin(r)
        if ok_d:
            exp["dsc"] = d
            h.ok("dice_definition", z3.Implies(A + B > 0, d * z3.ToReal(A + B) == z3.ToReal(2 * I)))
            h.ok("dice_range", z3.Implies(A + B > 0, z3.And(d >= 0, d <= 1)))
            same = z3.And([x == y for x, y in zip(X, Y)] + [A > 0])
            h.ok("dice_one_iff_identical", z3.Implies(A + B > 0, (d == 1) == same))
        if ok_i:
            exp["iou"] = i
            h.ok("iou_definition", z3.Implies(U > 0, i * z3.ToReal(U) == z3.ToReal(I)))
            h.ok("iou_range", z3.Implies(U > 0, z3.And(i >= 0, i <= 1)))
            same = z3.And([x == y for x, y in zip(X, Y)] + [A > 0])
            h.ok("iou_one_iff_identical", z3.Implies(U > 0, (i == 1) == same))
        if ok_d and ok_i:
            h.ok("dice_iou_relation", z3.Implies(U > 0, d * (1 + i) == 2 * i))
        if ok_r:
            exp["rvd"] = r
            h.ok("rvd_definition", z3.Implies(A > 0, r * z3.ToReal(A) == z3.ToReal(B - A)))
        if mode in ("none", "int"):
            ok_ds, ds = guarded("dice", Metric.DSC, A + B > 0, swap=True)
            ok_is, is_ = guarded("iou", Metric.IOU, U > 0, swap=True)
            ok_ds, ok_is = ok_ds and fin(ds), ok_is and fin(is_)
            if ok_d and ok_ds:
                h.ok("dice_symmetric", z3.Implies(A + B > 0, d == ds))
            if ok_i and ok_is:
                h.ok("iou_symmetric", z3.Implies(U > 0, i == is_))
        if ok_i and z3.is_rational_value(i) and z3.is_true(z3.simplify(z3.And(i > 0, i < 1))):
            h.note_nontrivial((str(i), str(d) if ok_d else None, str(r) if ok_r else None))
        h.witness(expect=exp)

    def body_cl():
        from .. import stubs
        try:
            v = val(call(Metric.clDSC))
        except EngineSignal:
            raise
        except WriteToProtected as e:
            if case.get("mut_only"):
                # the write is into the caller's label map; it is observable on maps holding a label other than 0/1
                h.ok("no_input_mutation", z3.Not(z3.Or([v >= 2 for v in rv + pv])), detail=str(e))
            else:
                h.fail("no_input_mutation", detail=str(e))
            return
        except Exception as e:
            if not case.get("mut_only"):
                h.fail("cldice_no_exception", detail="%s: %s" % (type(e).__name__, str(e)[:100]))
            return
        if case.get("mut_only"):
            h.ok("no_input_mutation", True)
            h.note_nontrivial("labels")
            h.note_nontrivial("labels2")
            h.witness(expect=None)
            return
        # skeleton subsets chosen by the stub on this path (first call: reference, second: prediction)
        sk = stubs._skel_cache
        by_input = {}
        for key, (cells, res) in sk.items():
            by_input[tuple(key[2])] = res
        kr = tuple(c.get_id() for c in rv)
        kp = tuple(c.get_id() for c in pv)
        if kr not in by_input or kp not in by_input:
            h.fail("cldice_skeletons_of_both_masks", detail="skeletonize was not called on both input masks")
            return
        sr, sp = by_input[kr].cells, by_input[kp].cells
        from ..symnp import cz
        Sr = _count([cz(c) for c in sr])
        Sp = _count([cz(c) for c in sp])
        cov_r = _count([z3.And(cz(c), p) for c, p in zip(sr, pv)])    # reference skeleton covered by the prediction
        cov_p = _count([z3.And(cz(c), r) for c, r in zip(sp, rv)])    # prediction skeleton covered by the reference
        # harmonic mean of a = cov_r/Sr and b = cov_p/Sp wherever defined (both skeletons non-empty, a+b > 0)
        defined = z3.And(Sr > 0, Sp > 0, cov_r * Sp + cov_p * Sr > 0)
        if not fin(v):
            h.ok("cldice_definition", z3.Not(defined), detail="value %r where the harmonic mean is defined" % v)
        else:
            # v * (a + b) == 2ab  <=>  v * (cov_r*Sp + cov_p*Sr) == 2*cov_r*cov_p   (multiply by Sr*Sp > 0)
            h.ok("cldice_definition", z3.Implies(defined, v * z3.ToReal(cov_r * Sp + cov_p * Sr) == z3.ToReal(2 * cov_r * cov_p)))
            h.note_nontrivial(str(v))
        h.witness(expect=None)

    body = body_vol if case["what"] == "vol" else body_cl
    return explore_case(h, body, base=base, concretize_div=64, time_budget=3000)


# ================================================================================================ real-package side
def real_metric(case, mode, expect):
    import numpy as np
    from panoptica import Metric
    shape = tuple(case["shape"])
    ref = np.array(case["ref"], dtype=case["dtype"]).reshape(shape)
    pred = np.array(case["pred"], dtype=case["dtype"]).reshape(shape)
    if case.get("edit"):
        new = ref
        ref = np.array(case["ref0"], dtype=case["dtype"]).reshape(shape)
        try:
            Metric.DSC(ref, pred, case["ridx"], case["pidx"][0] if case["mode"] == "int" else list(case["pidx"]))
        except Exception:
            pass
        ref[...] = new          # the caller edits the same array object in place
    ref0, pred0 = ref.copy(), pred.copy()
    if case["what"] == "cl" and case.get("mut_only"):
        try:
            Metric.clDSC(ref, pred)
        except Exception:
            pass
        same = np.array_equal(ref, ref0) and np.array_equal(pred, pred0)
        return {"match": True, "violates": not same, "observed": None,
                "reason": None if same else "no_input_mutation: clDSC on label maps %s / %s left them as %s / %s" % (ref0.tolist(), pred0.tolist(), ref.tolist(), pred.tolist())}
    if case["what"] == "cl":
        return {"match": True, "why": "clDice witnesses depend on the real skeleton; not compared"} if mode == "witness" else {"error": "clDice replay needs the skeleton choice"}
    if case["mode"] == "none":
        X = set(np.flatnonzero(ref.ravel()).tolist())
        Y = set(np.flatnonzero(pred.ravel()).tolist())
        args = ()
    else:
        ridx = case["ridx"]
        pl = case["pidx"]
        X = set(np.flatnonzero(ref.ravel() == ridx).tolist())
        Y = set(np.flatnonzero(np.isin(pred.ravel(), pl)).tolist())
        args = (ridx, pl[0] if case["mode"] == "int" else list(pl))
    A, B, I = len(X), len(Y), len(X & Y)
    U = A + B - I
    obs, bad = {}, None

    def run(name, m, defined):
        nonlocal bad
        try:
            v = float(m(ref, pred, *args))
            obs[name] = v
            return v
        except Exception as e:
            obs[name] = "%s: %s" % (type(e).__name__, e)
            if defined and bad is None:
                bad = "%s_no_exception_where_defined: %s" % (name, obs[name])
            return None
    d = run("dice", Metric.DSC, A + B > 0)
    i = run("iou", Metric.IOU, U > 0)
    r = run("rvd", Metric.RVD, A > 0)
    if not (np.array_equal(ref, ref0) and np.array_equal(pred, pred0)):
        bad = bad or "no_input_mutation: metric call modified its input arrays"

    def chk(name, got, want):
        nonlocal bad
        if got is not None and bad is None and not close(got, float(want), 1e-12):
            bad = "%s: library %r, definition %s" % (name, got, want)
    if A + B > 0:
        chk("dice_definition", d, Fraction(2 * I, A + B))
    if U > 0:
        chk("iou_definition", i, Fraction(I, U))
    if A > 0:
        chk("rvd_definition", r, Fraction(B - A, A))
    if case["mode"] in ("none", "int") and bad is None:
        sargs = () if case["mode"] == "none" else (args[1], args[0])
        try:
            if A + B > 0 and d is not None and float(Metric.DSC(pred, ref, *sargs)) != d:
                bad = "dice_symmetric: %r vs %r" % (d, float(Metric.DSC(pred, ref, *sargs)))
            if U > 0 and i is not None and float(Metric.IOU(pred, ref, *sargs)) != i:
                bad = "iou_symmetric"
        except Exception as e:
            bad = "dice_no_exception_where_defined: swapped call raised %s" % e
    if mode == "witness":
        ok = True
        why = None
        for k_tw, k_re in (("dsc", "dice"), ("iou", "iou"), ("rvd", "rvd")):
            if expect and k_tw in expect and isinstance(obs.get(k_re), float):
                if not close(expect[k_tw], obs[k_re], 1e-12):
                    ok, why = False, "%s twin %s real %s" % (k_tw, expect[k_tw], obs[k_re])
        return {"match": ok, "why": why, "violates": bad is not None, "reason": bad, "observed": obs}
    return {"violates": bad is not None, "reason": bad, "observed": obs}


REAL = {"metric": real_metric}
