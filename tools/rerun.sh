#!/bin/bash
# tools/rerun.sh <outfile> <seed>:<check> ... : run single (seed, check) pairs (quick tier) and APPEND the result lines to <outfile>
cd /verif
OUT=$1; shift
for pair in "$@"; do
  sid=${pair%%:*}; prop=${pair##*:}
  s=$(date +%s)
  out=$(LINES_OUT=40 timeout 1500 tools/mut.sh seeded/$sid/patch.diff $prop quick 2>&1)
  rc=$(echo "$out" | grep -o "exit=[0-9]*" | tail -1)
  viol=$(echo "$out" | grep "obligation=" | head -1 | cut -c1-220)
  [ -z "$viol" ] && viol=$(echo "$out" | grep -E "INCONCLUSIVE|HARNESS-ERROR|MODEL-ERROR" | head -1 | cut -c1-220)
  e=$(date +%s)
  echo "$sid check=$prop $rc $((e-s))s | $viol" | tee -a $OUT
  git -C /repo checkout -- . 2>/dev/null
done
