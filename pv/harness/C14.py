"""C14 - the merge matcher only merges when it improves the match (layer C, DESIGN 4/C14).

Symbolically executed (twin): MaximizeMergeMatching.__init__/_match_instances/new_combination_score,
_calc_matching_metric_of_overlapping_labels (real sorted), Metric.__call__/_Metric.__call__ (label selection and the
np.isin union on identity arrays), Metric.score_beats_threshold, InstanceLabelMap.*.
Contract stubs: _calc_overlapping_labels (exact overlap pairs); the metric kernel is an uninterpreted real function of
(reference, SET of prediction labels), consistent across calls.
"""
from __future__ import annotations

import itertools
from fractions import Fraction

import z3

from ..sym import ENG, SNum, SBool, EngineSignal, shash
from ..symnp import SArr
from ..run import H, explore_case, jsonable
from .common import frac, fl, sets_1d_from_counts, voxel_sets
from . import C03

PROP = "C14"
META = {
    "bounds": {"quick": "2 references x 3 predictions with <= 4 overlapping pairs, 1x3 and 1x4 (one reference with four fragments); metrics IOU/DSC/ASSD; free real score per (reference, set of predictions); free threshold",
               "thorough": "2x3 with <= 6 pairs, 3x3 with <= 4 pairs"},
    "stubs": ["_calc_overlapping_labels := exact overlap pairs", "metric kernel := uninterpreted real function of (reference, set of prediction labels)",
              "multiprocessing.Pool := serial starmap"],
    "assumptions": ["set scores are free reals (over-approximation); counterexamples are realised as voxel counts or found again by a guided search on 1-D label maps and replayed",
                    "grids larger than the bound are outside the claim"],
    "nontrivial_rule": "paths on which at least one merge was attempted (a reference already matched meets a further overlapping prediction)",
}


def cases(tier):
    grids = [(2, 3, 4), (1, 3, 3), (1, 4, 4)] if tier == "quick" else [(2, 3, 6), (3, 3, 4), (1, 4, 4), (1, 5, 5)]
    return [{"name": "%s_%dx%d_le%d" % (m, R, Pn, mp), "metric": m, "R": R, "P": Pn, "maxpairs": mp}
            for m in ("IOU", "DSC", "ASSD") for (R, Pn, mp) in grids]


def _subsets(Pn):
    return [frozenset(c) for k in range(1, Pn + 1) for c in itertools.combinations(range(Pn), k)]


def run_case(case):
    from ..twin import Twin
    T = Twin()
    F = T.mod("panoptica._functionals")
    IM = T.mod("panoptica.instance_matcher")
    MM = T.mod("panoptica.metrics.metrics")
    PP = T.mod("panoptica.utils.processing_pair")
    metric, R, Pn, maxpairs = case["metric"], case["R"], case["P"], case["maxpairs"]
    met = getattr(MM.Metric, metric)
    inc = not met.decreasing
    subs = _subsets(Pn)
    ov = [[z3.Bool("ov_%d_%d" % (r, p)) for p in range(Pn)] for r in range(R)]
    S = {(r, q): z3.Real("s_%d_%s" % (r, "".join(map(str, sorted(q))))) for r in range(R) for q in subs}
    thr = z3.Real("thr")
    base = [z3.Sum([z3.If(ov[r][p], 1, 0) for r in range(R) for p in range(Pn)]) <= maxpairs, thr >= 0]
    for v in S.values():
        base.append(z3.And(v >= 0, v <= 1) if inc else v >= 0)
    if inc:
        base.append(thr <= 1)
        # an overlapping single pair has a positive overlap score
        for r in range(R):
            for p in range(Pn):
                base.append(z3.Implies(ov[r][p], S[(r, frozenset([p]))] > 0))
    ref_arr = SArr(list(range(1, R + 1)) + [0] * Pn, "uint8")
    pred_arr = SArr([0] * R + list(range(1, Pn + 1)), "uint8")
    attempted = []

    def free_metric(ref_mask, pred_mask, *a, **k):
        r = [i for i, c in enumerate(ref_mask.cells) if c is True]
        q = frozenset(i - R for i, c in enumerate(pred_mask.cells) if c is True)
        assert len(r) == 1 and q, (ref_mask.cells, pred_mask.cells)
        if len(q) > 1:
            attempted.append((r[0], q))
        return SNum(S[(r[0], q)], "float64")
    met.value._metric_function = free_metric
    F._calc_overlapping_labels = lambda prediction_arr, reference_arr, ref_labels: [(r + 1, p + 1) for p in range(Pn) for r in range(R) if SBool(ov[r][p])]

    def decode(m):
        d = {"metric": metric, "R": R, "P": Pn, "flags": [[bool(jsonable(ov[r][p], m)) for p in range(Pn)] for r in range(R)],
             "scores": {"%d:%s" % (r, ",".join(map(str, sorted(q)))): jsonable(v, m) for (r, q), v in S.items()}, "thr": jsonable(thr, m)}
        if h.last_neg is not None:
            # counterexample: hand the violating path itself (its decisions and the negated obligation) to the replay side, which re-solves it
            # under the exact overlap-score formulas over bounded voxel counts (the free-score model over-approximates real scores)
            d["path"] = [c.sexpr() for c in list(ENG.path) + [h.last_neg]]
        return d
    h = H(PROP, case["name"], decode, replay_kind="abstract", max_witnesses=30)

    def beats(s, t):
        return s >= t if inc else s <= t

    def better(a, b):
        return a > b if inc else a < b

    def good(a, b):
        return a >= b if inc else a <= b

    def body():
        del attempted[:]
        pair = PP.UnmatchedInstancePair(pred_arr, ref_arr)
        matcher = IM.MaximizeMergeMatching(met, SNum(thr))
        try:
            lm = matcher._match_instances(pair)
        except EngineSignal:
            raise
        except Exception as e:
            h.fail("terminates_with_result", detail="%s: %s" % (type(e).__name__, str(e)[:120]))
            return
        items = [(int(p) - 1, int(r) - 1) for p, r in lm.labelmap.items()]     # insertion order = merge order
        E = {(r, p) for r in range(R) for p in range(Pn) if ENG.known.get(shash(z3.simplify(ov[r][p]))) is True}
        h.ok("prediction_to_at_most_one_reference", len({p for p, r in items}) == len(items))
        h.ok("assigned_pairs_overlap", all((r, p) in E for p, r in items))
        if attempted:
            h.note_nontrivial(tuple(sorted((r, tuple(sorted(q))) for r, q in attempted)))
        for r in sorted({r for p, r in items}):
            seq = [p for p, rr in items if rr == r]
            first = frozenset([seq[0]])
            h.ok("matched_only_if_single_prediction_meets_threshold", beats(S[(r, first)], thr), detail={"ref": r + 1, "first": seq[0] + 1})
            cur = first
            for p in seq[1:]:
                nxt = cur | {p}
                h.ok("merge_only_if_strictly_better", better(S[(r, nxt)], S[(r, cur)]), detail={"ref": r + 1, "merged": p + 1, "into": sorted(x + 1 for x in cur)})
                cur = nxt
            h.ok("final_at_least_as_good_and_meets_threshold", z3.And(good(S[(r, cur)], S[(r, first)]), beats(S[(r, cur)], thr)), detail={"ref": r + 1})
        # an improving merge must not be refused: a further overlapping, still unassigned prediction that would make the
        # current combination strictly better at the time it was considered is reported under C14's 'only if' reading only
        h.witness(expect={"M": [[p + 1, r + 1] for p, r in items]})
    return explore_case(h, body, logic="QF_LRA", base=base, time_budget=3000)


# ================================================================================================ real-package side
def _real_merge(pred, ref, metric, thr, serial):
    import numpy as np
    from panoptica import UnmatchedInstancePair, Metric
    from panoptica.instance_matcher import MaximizeMergeMatching
    import panoptica._functionals as F
    import multiprocessing
    from pv.stubs import SerialPool
    F.Pool = SerialPool if serial else multiprocessing.Pool
    p = np.array(pred, dtype=np.uint8)
    r = np.array(ref, dtype=np.uint8)
    matcher = MaximizeMergeMatching(getattr(Metric, metric), thr)
    lm = matcher._match_instances(UnmatchedInstancePair(p.copy(), r.copy()))
    items = [(int(k), int(v)) for k, v in lm.labelmap.items()]
    matcher.match_instances(UnmatchedInstancePair(p.copy(), r.copy()))
    return items


def oracle(pred, ref, metric, thr, items):
    inc = metric != "ASSD"
    Pv, Rv = voxel_sets(pred), voxel_sets(ref)
    from .realcommon import thr_frac
    t = thr_frac(thr)
    beats = (lambda s: s >= t) if inc else (lambda s: s <= t)
    better = (lambda a, b: a > b) if inc else (lambda a, b: a < b)
    good = (lambda a, b: a >= b) if inc else (lambda a, b: a <= b)

    def sc(r, q):
        Y = set().union(*[Pv[p] for p in q])
        return C03._score(metric, Rv[r], Y)
    if len({p for p, r in items}) != len(items):
        return "prediction_to_at_most_one_reference", str(items)
    for p, r in items:
        if p not in Pv or r not in Rv or not (Pv[p] & Rv[r]):
            return "assigned_pairs_overlap", "pred %s -> ref %s" % (p, r)
    for r in sorted({r for p, r in items}):
        seq = [p for p, rr in items if rr == r]
        if not beats(sc(r, [seq[0]])):
            return "matched_only_if_single_prediction_meets_threshold", "ref %s first prediction %s scores %s vs threshold %s" % (r, seq[0], sc(r, [seq[0]]), t)
        cur = [seq[0]]
        for p in seq[1:]:
            if not better(sc(r, cur + [p]), sc(r, cur)):
                return "merge_only_if_strictly_better", "ref %s: merging prediction %s into %s changes the score from %s to %s" % (r, p, cur, sc(r, cur), sc(r, cur + [p]))
            cur.append(p)
        if not (good(sc(r, cur), sc(r, [seq[0]])) and beats(sc(r, cur))):
            return "final_at_least_as_good_and_meets_threshold", "ref %s final %s" % (r, sc(r, cur))
    return None


def _realise(case):
    """voxel counts for IOU/DSC such that every set score relates to every other set score and to the threshold as in the abstract case"""
    R, Pn, metric = case["R"], case["P"], case["metric"]
    flags = case["flags"]
    subs = _subsets(Pn)
    sv = {(int(k.split(":")[0]), frozenset(int(x) for x in k.split(":")[1].split(","))): frac(v) for k, v in case["scores"].items()}
    t = frac(case["thr"])
    n = [[z3.Int("n_%d_%d" % (r, p)) for p in range(Pn)] for r in range(R)]
    a = [z3.Int("a_%d" % r) for r in range(R)]
    b = [z3.Int("b_%d" % p) for p in range(Pn)]
    kk = z3.Int("k")
    DEN = 1024
    for bound in (5, 12):
        s = z3.Solver()
        s.set("timeout", 30000)
        for r in range(R):
            s.add(a[r] >= 0, a[r] <= bound)
            for p in range(Pn):
                s.add(n[r][p] >= 0, n[r][p] <= bound, (n[r][p] > 0) == bool(flags[r][p]))
        for p in range(Pn):
            s.add(b[p] >= 0, b[p] <= bound)
        s.add(kk >= 0, kk <= DEN)
        Rs = [a[r] + z3.Sum([n[r][p] for p in range(Pn)]) for r in range(R)]
        Ps = [b[p] + z3.Sum([n[r][p] for r in range(R)]) for p in range(Pn)]
        for x in Rs + Ps:
            s.add(x > 0)

        def numden(r, q):
            inter = z3.Sum([n[r][p] for p in q])
            size = z3.Sum([Ps[p] for p in q])
            return (inter, Rs[r] + size - inter) if metric == "IOU" else (2 * inter, Rs[r] + size)

        def rel(x, y, l, rg):
            s.add(l < rg if x < y else (l == rg if x == y else l > rg))
        # only sets whose members all overlap the reference can be evaluated by the matcher
        keys = [(r, q) for r in range(R) for q in subs if all(flags[r][p] for p in q)]
        for e, f in itertools.combinations(keys, 2):
            if e[0] != f[0]:
                continue
            ne, de = numden(*e)
            nf, df = numden(*f)
            rel(sv[e], sv[f], ne * df, nf * de)
        for e in keys:
            ne, de = numden(*e)
            rel(sv[e], t, ne * DEN, kk * de)
        singles = [(r, frozenset([p])) for r in range(R) for p in range(Pn) if flags[r][p]]
        for e, f in itertools.combinations(singles, 2):
            ne, de = numden(*e)
            nf, df = numden(*f)
            rel(sv[e], sv[f], ne * df, nf * de)
        if str(s.check()) == "sat":
            m = s.model()
            g = lambda x: m.eval(x, True).as_long()
            pred, ref = sets_1d_from_counts([[g(n[r][p]) for p in range(Pn)] for r in range(R)], [g(x) for x in a], [g(x) for x in b])
            return {"pred": pred, "ref": ref, "thr": g(kk) / DEN}
    return None


def _realise_path(case):
    """refinement of an abstract counterexample: voxel counts (bounded) whose exact IoU / Dice set scores satisfy the violating path's own
    decisions and the negated obligation; None if there are none within the bound"""
    R, Pn, metric = case["R"], case["P"], case["metric"]
    if not case.get("path") or metric == "ASSD":
        return None
    subs = _subsets(Pn)
    decls = {"thr": z3.Real("thr")}
    for r in range(R):
        for p in range(Pn):
            decls["ov_%d_%d" % (r, p)] = z3.Bool("ov_%d_%d" % (r, p))
        for q in subs:
            nm = "s_%d_%s" % (r, "".join(map(str, sorted(q))))
            decls[nm] = z3.Real(nm)
    text = "".join("(assert %s)\n" % c for c in case["path"])
    try:
        cons = list(z3.parse_smt2_string(text, decls=decls))
    except z3.Z3Exception:
        return None
    n = [[z3.Int("n_%d_%d" % (r, p)) for p in range(Pn)] for r in range(R)]
    a = [z3.Int("a_%d" % r) for r in range(R)]
    b = [z3.Int("b_%d" % p) for p in range(Pn)]
    kk = z3.Int("k")
    npairs = sum(1 for row in case["flags"] for f in row if f)
    import time as _time
    for bound, DEN in ((3, 64), (6, 64), (1 << 20, 1024)):     # the last one: scores within a floating-point tolerance of the threshold need large instances
        if bound > 100 and npairs > 1:
            continue        # large instances only for a single overlapping pair (the non-linear query does not finish otherwise)
        if _REFINE["spent"] > 300:
            return None     # refinement budget of one replay session used up
        t_ref = _time.time()
        s = z3.Solver()
        s.set("timeout", 20000 if bound < 100 else 60000)
        for r in range(R):
            s.add(a[r] >= 0, a[r] <= bound)
            for p in range(Pn):
                s.add(n[r][p] >= 0, n[r][p] <= bound, (n[r][p] > 0) == decls["ov_%d_%d" % (r, p)])
        for p in range(Pn):
            s.add(b[p] >= 0, b[p] <= bound)
        s.add(kk >= 0, kk <= DEN, decls["thr"] * DEN == z3.ToReal(kk))
        Rs = [a[r] + z3.Sum([n[r][p] for p in range(Pn)]) for r in range(R)]
        Ps = [b[p] + z3.Sum([n[r][p] for r in range(R)]) for p in range(Pn)]
        for x in Rs + Ps:
            s.add(x > 0)
        sub = []
        for r in range(R):
            for q in subs:
                inter = z3.Sum([n[r][p] for p in q])
                size = z3.Sum([Ps[p] for p in q])
                num, den = (inter, Rs[r] + size - inter) if metric == "IOU" else (2 * inter, Rs[r] + size)
                sub.append((decls["s_%d_%s" % (r, "".join(map(str, sorted(q))))], z3.ToReal(num) / z3.ToReal(den)))
        for c in cons:
            s.add(z3.substitute(c, *sub))
        verdict = str(s.check())
        _REFINE["spent"] += _time.time() - t_ref
        if verdict == "sat":
            m = s.model()
            g = lambda x: m.eval(x, True).as_long()
            pred, ref = sets_1d_from_counts([[g(n[r][p]) for p in range(Pn)] for r in range(R)], [g(x) for x in a], [g(x) for x in b])
            return {"pred": pred, "ref": ref, "thr": g(kk) / DEN}
    return None


_REFINE = {"spent": 0.0}


def _run_real(arrs, case, mode, expect):
    serial = mode != "violation"
    try:
        items = _real_merge(arrs["pred"], arrs["ref"], case["metric"], arrs["thr"], serial)
    except Exception as e:
        reason = "%s: %s" % (type(e).__name__, str(e)[:160])
        return {"violates": True, "match": False, "reason": "terminates_with_result: " + reason, "observed": {"arrays": arrs}}
    bad = oracle(arrs["pred"], arrs["ref"], case["metric"], arrs["thr"], items)
    obs = {"arrays": arrs, "M": [list(x) for x in items]}
    ok = mode != "witness" or expect is None or obs["M"] == expect["M"]
    return {"match": ok, "why": None if ok else "merge result differs from the twin %s" % expect, "violates": bad is not None,
            "reason": None if bad is None else "%s: %s" % bad, "observed": obs}


def _search(case, want):
    import random
    rnd = random.Random(7)
    metric = case["metric"]
    for it in range(6000):
        L = rnd.randint(4, 14)
        ref = [0] * L
        pred = [0] * L
        pos = rnd.randint(0, 2)
        for lab in range(1, case["R"] + 1):
            ln = rnd.randint(2, 6)
            for i in range(pos, min(L, pos + ln)):
                ref[i] = lab
            pos += ln + rnd.randint(0, 2)
        pos = rnd.randint(0, 3)
        for lab in range(1, case["P"] + 1):
            ln = rnd.randint(1, 4)
            for i in range(pos, min(L, pos + ln)):
                pred[i] = lab
            pos += ln + rnd.randint(0, 1)
        if not any(ref) or not any(pred):
            continue
        thr = rnd.choice([0.125, 0.25, 0.5, 0.75]) if metric != "ASSD" else rnd.choice([0.5, 1, 2, 3, 5])
        arrs = {"pred": pred, "ref": ref, "thr": thr}
        out = _run_real(arrs, case, "search", None)
        if out.get("violates"):
            return arrs   # any real violation of the property confirms the abstract counterexample's verdict
    return None


def real_abstract(case, mode, expect):
    arrs = _realise(case) if case["metric"] != "ASSD" else None
    if arrs is None and mode != "witness":
        arrs = _realise_path(case)
    if arrs is None:
        if mode == "witness":
            return {"match": True, "skipped": "abstract path representative not realisable as voxel counts"}
        arrs = _search(case, (expect or {}).get("obligation"))
        if arrs is None:
            return {"error": "abstract counterexample neither realisable nor re-found by the guided search"}
    return _run_real(arrs, case, mode, expect)


def real_arrays(case, mode, expect):
    return _run_real({"pred": case["pred"], "ref": case["ref"], "thr": fl(case["thr"])}, case, mode, expect)


REAL = {"abstract": real_abstract, "arrays": real_arrays}
