"""C09 - results do not depend on label values, label order or integer dtype (layer A, DESIGN 4/C09).

One symbolic run per canonical geometry class (which voxel carries which (prediction index, reference index)); the label
VALUES are free ordered integers in [1, min(2^w, 2^24)) and the unsigned dtype w is concrete per case.
Symbolically executed (twin): _calc_overlapping_labels, _get_paired_crop, _get_bbox_nd, _unique_without_zeros,
_count_unique_without_zeros, _ProcessingPair/_ProcessingPairInstanced/UnmatchedInstancePair/MatchedInstancePair.__init__,
_check_array_integrity.
"""
from __future__ import annotations

import itertools

import z3

from ..sym import ENG, SNum, SBool, EngineSignal, declare_bounds
from ..symnp import SArr, WriteToProtected
from ..run import H, explore_case, jsonable

from . import layera_match as LAM

PROP = "C09"
LIM = 1 << 24
META = {
    "bounds": {"quick": "canonical geometry classes of 2 voxels x <=2 labels per side for uint8/16/32/64 and of 3 voxels for uint16/uint32; label values free in [1, min(2^w,2^24)), ordered per side; "
                        "crop obligation on 1-D arrays with the class voxels 4 apart",
               "thorough": "3-voxel classes (79) for all four dtypes"},
    "stubs": [],
    "assumptions": ["small-scope argument (DESIGN 3): a wrong pair needs one voxel, a lost pair a collision of two voxels' codes given the maximum label (<= 3 voxels); more voxels add no new arithmetic",
                    "NumPy 1.26.4 promotion rules as modelled in pv/symnp.py (validated by witness replay on the real package)",
                    "label values >= 2^24 are outside the claim"],
    "nontrivial_rule": "geometry classes with at least two distinct overlapping (reference, prediction) pairs",
}
DT_BITS = {"uint8": 8, "uint16": 16, "uint32": 32, "uint64": 64}


def canon_geoms(N, K):
    seen = set()
    for g in itertools.product(itertools.product(range(K + 1), repeat=2), repeat=N):
        ps = sorted({p for p, r in g if p})
        rs = sorted({r for p, r in g if r})
        if ps != list(range(1, len(ps) + 1)) or rs != list(range(1, len(rs) + 1)):
            continue
        key = tuple(sorted(g))
        if key in seen:
            continue
        seen.add(key)
        yield key


def cases(tier):
    out = []
    plan = [(2, dt) for dt in DT_BITS] + ([(3, "uint16"), (3, "uint32")] if tier == "quick" else [(3, dt) for dt in DT_BITS])
    for N, dt in plan:
        geoms = list(canon_geoms(N, 2))
        chunk = 4 if N == 3 else 8
        for i in range(0, len(geoms), chunk):
            out.append({"name": "k_%s_v%d_g%03d" % (dt, N, i), "dtype": dt, "geoms": geoms[i:i + chunk], "what": "kernels"})
    # semantic input: values up to 2^24 in signed/unsigned dtypes must survive the cast to the "smallest fitting" unsigned dtype
    for dt in (("int64", "uint32", "uint16") if tier == "quick" else ("int64", "int32", "uint64", "uint32", "uint16", "int16")):
        geoms = list(canon_geoms(2, 2))
        for i in range(0, len(geoms), 10):
            out.append({"name": "sem_%s_g%03d" % (dt, i), "dtype": dt, "geoms": geoms[i:i + 10], "what": "semantic"})
    out.append({"name": "integrity", "what": "integrity"})
    # composed claim: the whole matcher's outcome depends on the geometry only, for every label value and dtype
    out += LAM.matcher_cases(tier, PROP)
    return out


def run_case(case):
    if case["what"] == "layerA_matcher":
        return LAM.run_matcher_case(case, PROP, {"assign": "outcome_is_label_generic"})
    if case["what"] == "integrity":
        return _run_integrity(case)
    from ..twin import get_twin
    T = get_twin()
    F = T.mod("panoptica._functionals")
    PP = T.mod("panoptica.utils.processing_pair")
    dt = case["dtype"]
    import numpy as _np
    lim = min(LIM, int(_np.iinfo(dt).max) + 1)
    K = 2
    IA = T.mod("panoptica.instance_approximator")
    semantic = case["what"] == "semantic"
    LP = [z3.Int("LP%d" % i) for i in range(1, K + 1)]
    LR = [z3.Int("LR%d" % i) for i in range(1, K + 1)]
    base = []
    for L in (LP, LR):
        prev = z3.IntVal(0)
        for l in L:
            base.append(l > prev)
            prev = l
            declare_bounds(l, 1, lim - 1)
        base.append(prev < lim)
    geoms = [tuple(tuple(x) for x in g) for g in case["geoms"]]
    cur = {}

    def decode(m):
        g = cur["g"]
        lp = [jsonable(x, m) for x in LP]
        lr = [jsonable(x, m) for x in LR]
        return {"dtype": dt, "geom": [list(x) for x in g], "pred": [lp[p - 1] if p else 0 for p, r in g], "ref": [lr[r - 1] if r else 0 for p, r in g],
                "spaced": cur.get("spaced", False)}
    h = H(PROP, case["name"], decode, replay_kind="kernels" if not semantic else "semantic", max_witnesses=len(geoms) * 3)

    def arrays(g, spaced):
        if not spaced:
            pv = [LP[p - 1] if p else 0 for p, r in g]
            rv = [LR[r - 1] if r else 0 for p, r in g]
        else:
            pv, rv = [], []
            for p, r in g:
                pv += [LP[p - 1] if p else 0, 0, 0, 0]
                rv += [LR[r - 1] if r else 0, 0, 0, 0]
        return SArr(pv, dt).protect("caller prediction"), SArr(rv, dt).protect("caller reference")

    def body_for(g):
        nref = max([r for p, r in g] + [0])
        npred = max([p for p, r in g] + [0])
        true_pairs = sorted({(r, p) for p, r in g if p and r})

        def body_sem():
            cur["g"] = g
            cur["spaced"] = False
            h.note_nontrivial(str(g))
            pa, ra = arrays(g, False)
            try:
                pair = PP.SemanticPair(pa, ra)
                up = IA.ConnectedComponentsInstanceApproximator().approximate_instances(pair)
            except EngineSignal:
                raise
            except WriteToProtected as e:
                h.fail("no_input_mutation", detail=str(e))
                return
            except Exception as e:
                h.fail("approximation_completes", detail="%s: %s" % (type(e).__name__, str(e)[:120]))
                return
            from ..symnp import cnum
            po, ro = [cnum(c) for c in up.prediction_arr.cells], [cnum(c) for c in up.reference_arr.cells]
            h.ok("semantic_foreground_kept_for_every_value", z3.And([(po[i] != 0) == bool(p) for i, (p, r) in enumerate(g)] + [(ro[i] != 0) == bool(r) for i, (p, r) in enumerate(g)]),
                 detail={"pred_out": po, "ref_out": ro})
            h.witness(expect=None)

        def body():
            cur["g"] = g
            cur["spaced"] = False
            if len(true_pairs) >= 2:
                h.note_nontrivial(str(g))
            # ---- 1. overlap pairs
            if nref:
                pa, ra = arrays(g, False)
                try:
                    pairs = F._calc_overlapping_labels(pa, ra, tuple(SNum(LR[i], dt) for i in range(nref)))
                except EngineSignal:
                    raise
                except WriteToProtected as e:
                    h.fail("no_input_mutation", detail=str(e))
                    pairs = None
                except Exception as e:
                    h.fail("overlap_pairs_no_exception", detail="%s: %s" % (type(e).__name__, str(e)[:120]))
                    pairs = None
                if pairs is not None:
                    got = [(SNum(a).t if not isinstance(a, SNum) else a.t, SNum(b).t if not isinstance(b, SNum) else b.t) for a, b in pairs]
                    sound = z3.And([z3.Or([z3.And(a == LR[r - 1], b == LP[p - 1]) for r, p in true_pairs]) if true_pairs else z3.BoolVal(False) for a, b in got] + [z3.BoolVal(True)])
                    complete = z3.And([z3.Or([z3.And(a == LR[r - 1], b == LP[p - 1]) for a, b in got]) if got else z3.BoolVal(False) for r, p in true_pairs] + [z3.BoolVal(True)])
                    h.ok("overlap_pairs_sound", sound, detail={"got": [[a, b] for a, b in got]})
                    h.ok("overlap_pairs_complete", complete, detail={"got": [[a, b] for a, b in got]})
            # ---- 4. label bookkeeping of the processing pairs
            pa, ra = arrays(g, False)
            try:
                up = PP.UnmatchedInstancePair(pa, ra)
                h.ok("ref_labels_exact", len(up.ref_labels) == nref and z3.And([SNum(x).t == LR[i] for i, x in enumerate(up.ref_labels)] + [z3.BoolVal(True)]))
                h.ok("pred_labels_exact", len(up.pred_labels) == npred and z3.And([SNum(x).t == LP[i] for i, x in enumerate(up.pred_labels)] + [z3.BoolVal(True)]))
                h.ok("instance_counts", up.n_prediction_instance == npred and up.n_reference_instance == nref)
            except EngineSignal:
                raise
            except Exception as e:
                h.fail("processing_pair_no_exception", detail="%s: %s" % (type(e).__name__, str(e)[:120]))
            # ---- 3. crop box contains every voxel that is non-zero in either array (voxels 4 apart, default padding 2)
            cur["spaced"] = True
            pa, ra = arrays(g, True)
            try:
                crop = F._get_paired_crop(pa, ra)
                sl = crop[0]
                inside = all((sl.start <= 4 * i < sl.stop) for i, (p, r) in enumerate(g) if p or r)
                h.ok("crop_contains_all_foreground", inside and 0 <= sl.start <= sl.stop, detail={"slice": [sl.start, sl.stop]})
            except EngineSignal:
                raise
            except Exception as e:
                h.fail("crop_no_exception", detail="%s: %s" % (type(e).__name__, str(e)[:120]))
            cur["spaced"] = False
            h.witness(expect=None)
        return body_sem if semantic else body
    # one exploration per geometry class, merged into one result
    merged = None
    for g in geoms:
        r = explore_case(h, body_for(g), logic="QF_NIA", incremental=False, const_hash=True, base=base, time_budget=400, timeout_ms=20000)
        if merged is None:
            merged = r
        else:
            for k, v in r["stats"].items():
                merged["stats"][k] = merged["stats"].get(k, 0) + v
            merged["error"] = merged["error"] or r["error"]
            merged["wall_s"] += r["wall_s"]
            merged["functions"] = sorted(set(merged["functions"]) | set(r["functions"]))
            merged["nontrivial"] = r["nontrivial"]
    merged["violations"], merged["witnesses"], merged["obligations"] = h.violations, h.witnesses, h.obligations
    return merged


def _run_integrity(case):
    """_check_array_integrity accepts exactly equal-shape, equal-dtype arrays of the right kind (concrete enumeration of dtypes: no free variables)"""
    import numpy as np
    from ..twin import get_twin
    T = get_twin()
    PP = T.mod("panoptica.utils.processing_pair")
    h = H(PROP, case["name"], lambda m: {}, replay_kind=None)

    def body():
        dts = ["uint8", "uint16", "uint32", "uint64", "int8", "int32", "int64", "float64", "bool"]
        for a, b in itertools.product(dts, repeat=2):
            for shp_b in ((3,), (4,)):
                pa, pb = SArr([0, 1, 0], a), SArr([0, 1, 0][:shp_b[0]] + [0] * (shp_b[0] - 3), b)
                for cls, want_kind in ((PP.UnmatchedInstancePair, "u"), (PP.MatchedInstancePair, "u"), (PP.SemanticPair, "iu")):
                    should = a == b and shp_b == (3,) and np.dtype(a).kind in want_kind
                    try:
                        cls(pa, pb)
                        ok = True
                    except AssertionError:
                        ok = False
                    h.ok("integrity_%s" % cls.__name__, ok == should, detail={"a": a, "b": b, "shape_b": list(shp_b)})
        h.note_nontrivial("dtype-pairs")
        h.note_nontrivial("shapes")
    return explore_case(h, body)


# ================================================================================================ real-package side
def real_kernels(case, mode, expect):
    import numpy as np
    import panoptica._functionals as F
    from panoptica import UnmatchedInstancePair
    dt = case["dtype"]
    g = [tuple(x) for x in case["geom"]]
    pred = np.array(case["pred"], dtype=dt)
    ref = np.array(case["ref"], dtype=dt)
    bad = None
    obs = {}
    true_pairs = sorted({(int(ref[i]), int(pred[i])) for i in range(len(g)) if pred[i] and ref[i]})
    rl = tuple(np.unique(ref[ref != 0]))
    if rl:
        try:
            pa, ra = pred.copy(), ref.copy()
            got = sorted((int(a), int(b)) for a, b in F._calc_overlapping_labels(pa, ra, rl))
            obs["pairs"] = got
            if not (np.array_equal(pa, pred) and np.array_equal(ra, ref)):
                bad = "no_input_mutation: _calc_overlapping_labels modified the arrays it was given (%s -> %s)" % (pred.tolist(), pa.tolist())
            elif got != true_pairs:
                miss = [p for p in true_pairs if p not in got]
                bad = ("overlap_pairs_complete" if miss else "overlap_pairs_sound") + ": library %s, voxels give %s" % (got, true_pairs)
        except Exception as e:
            bad = "overlap_pairs_no_exception: %s: %s" % (type(e).__name__, e)
    if bad is None:
        sp = np.zeros(4 * len(g), dtype=dt)
        sr = np.zeros(4 * len(g), dtype=dt)
        sp[::4] = pred
        sr[::4] = ref
        try:
            sl = F._get_paired_crop(sp, sr)[0]
            obs["crop"] = [int(sl.start), int(sl.stop)]
            for i in range(len(g)):
                if (pred[i] or ref[i]) and not (sl.start <= 4 * i < sl.stop):
                    bad = "crop_contains_all_foreground: voxel %d (pred %d, ref %d) outside crop %s" % (4 * i, pred[i], ref[i], obs["crop"])
        except Exception as e:
            bad = "crop_no_exception: %s: %s" % (type(e).__name__, e)
    if bad is None:
        try:
            up = UnmatchedInstancePair(pred.copy(), ref.copy())
            if [int(x) for x in up.ref_labels] != sorted({int(x) for x in ref if x}) or up.n_prediction_instance != len({int(x) for x in pred if x}):
                bad = "ref_labels_exact: %s" % (list(up.ref_labels),)
        except Exception as e:
            bad = "processing_pair_no_exception: %s" % e
    return {"match": True, "violates": bad is not None, "reason": bad, "observed": obs}


def real_semantic(case, mode, expect):
    import numpy as np
    from panoptica import ConnectedComponentsInstanceApproximator, SemanticPair
    dt = case["dtype"]
    pred = np.array(case["pred"], dtype=dt)
    ref = np.array(case["ref"], dtype=dt)
    try:
        up = ConnectedComponentsInstanceApproximator().approximate_instances(SemanticPair(pred.copy(), ref.copy()))
    except Exception as e:
        return {"match": False, "violates": True, "reason": "approximation_completes: %s: %s" % (type(e).__name__, e), "observed": None}
    po, ro = np.asarray(up.prediction_arr), np.asarray(up.reference_arr)
    obs = {"pred_out": po.tolist(), "ref_out": ro.tolist()}
    bad = None
    if (po != 0).tolist() != (pred != 0).tolist() or (ro != 0).tolist() != (ref != 0).tolist():
        bad = "semantic_foreground_kept_for_every_value: input pred %s ref %s -> instances pred %s ref %s" % (pred.tolist(), ref.tolist(), po.tolist(), ro.tolist())
    return {"match": True, "violates": bad is not None, "reason": bad, "observed": obs}


REAL = {"kernels": real_kernels, "semantic": real_semantic,
        "layerA_matcher": lambda case, mode, expect: LAM.real_matcher(case, mode, expect, {"assign": "outcome_is_label_generic"})}
