"""Protocol layer (DESIGN 3.2): operation-trace extraction from the real aggregator methods + bounded model checking of their interleavings.

1. extract(): the real Panoptica_Aggregator.evaluate / make_statistic bodies run in the twin with recording lock / helper stubs whose answers
   are fresh symbolic Booleans; every feasible path yields a straight-line operation trace guarded by the answers assumed.  The traces of a
   method form a trie = its summary program (regenerated from /repo's source on every run).
2. bmc(): z3 unrolling.  State = program counter per thread, lock holders, per file (row count, cells, partial-write flag), per thread the
   snapshot of the buffer file it last read.  One symbolic schedule variable per step picks the thread; an acquire is enabled only if the lock
   is free; a row append is two micro-steps (begin / end) so that a reader that is not excluded by a lock can observe an incomplete row.
"""
from __future__ import annotations

import time

import z3

from .sym import ENG, SBool, EngineSignal

OUT, TMP = "out", "tmp"


# ------------------------------------------------------------------------------------------------ extraction
class RecLock:
    def __init__(self, name, trace):
        self.name, self.trace = name, trace

    def __enter__(self):
        self.trace.append(("acq", self.name))
        return self

    def __exit__(self, *a):
        self.trace.append(("rel", self.name))
        return False

    def acquire(self, *a, **k):
        self.trace.append(("acq", self.name))
        return True

    def release(self):
        self.trace.append(("rel", self.name))


class IdList(list):
    """result of reading the first column of a file: membership is a fresh symbolic answer"""

    def __init__(self, fname, trace, counter):
        super().__init__()
        self.fname, self.trace, self.counter = fname, trace, counter

    def __contains__(self, x):
        self.counter[0] += 1
        b = SBool(z3.Bool("guard_in_%s#%d" % (self.fname, self.counter[0])))
        r = bool(b)
        self.trace.append(("guard_in_snapshot", r))
        return r


def extract(repo_twin_factory):
    """-> {'evaluate': [trace, ...], 'make_statistic': [trace, ...]}, source digest"""
    T = repo_twin_factory()
    A = T.mod("panoptica.panoptica_aggregator")
    trace = []
    counter = [0]

    def fname(f):
        s = str(f)
        return TMP if s.endswith("tmp.tsv") else OUT
    A.filelock = RecLock("filelock", trace)
    A.inevalfilelock = RecLock("inevalfilelock", trace)

    def load_col(f):
        trace.append(("readcol", fname(f)))
        return IdList(fname(f), trace, counter)

    def write(f, content):
        trace.append(("append", fname(f)))

    def read_first(f):
        trace.append(("readfirst", fname(f)))
        return ["subject_name"]
    A._load_first_column_entries = load_col
    A._write_content = write
    A._read_first_row = read_first

    class Stat:
        @staticmethod
        def from_file(f):
            trace.append(("readall", fname(f)))
            return "STAT"
    A.Panoptica_Statistic = Stat

    class Res:
        computation_time = None

        def to_dict(self):
            return {"tp": 1}

    class Ev:
        segmentation_class_groups_names = ["g"]
        resulting_metric_keys = ["tp"]

        def evaluate(self, *a, **k):
            trace.append(("EVAL",))
            return {"g": (Res(), None)}
    def bare():
        agg = A.Panoptica_Aggregator.__new__(A.Panoptica_Aggregator)
        agg._Panoptica_Aggregator__panoptica_evaluator = Ev()
        agg._Panoptica_Aggregator__class_group_names = ["g"]
        agg._Panoptica_Aggregator__evaluation_metrics = ["tp"]
        agg._Panoptica_Aggregator__output_file = "/d/results.tsv"
        agg._Panoptica_Aggregator__output_buffer_file = "/d/results_panoptica_aggregator_tmp.tsv"
        return agg

    def fresh():
        """the aggregator as every worker sees it when its call starts: the state the real constructor leaves (over the file model, new output
        file).  Built anew for every explored call, so object state a call leaves behind is NOT seen by the next one - the semantics of
        forked worker processes, each with its own copy; code that keeps no such state behaves the same under threads."""
        fsm = getattr(T, "_pv_fs", None)
        try:
            if fsm is not None:
                fsm.__init__()
                fsm.dirs.add("/d")
            return A.Panoptica_Aggregator(Ev(), "/d/results.tsv")
        except EngineSignal:
            raise
        except Exception:
            return bare()
    holder = {}
    out = {}
    for meth, call in (("evaluate", lambda: holder["agg"].evaluate(None, None, "NAME")), ("make_statistic", lambda: holder["agg"].make_statistic())):
        traces = []

        def run():
            holder["agg"] = fresh()
            del trace[:]
            counter[0] = 0
            call()
            traces.append(list(trace))
        ENG.__init__()
        ENG.incremental = True
        ENG.explore(run)
        out[meth] = traces
    return out, T.source_digest()


def build_program(traces):
    """trie of traces -> list of instructions; ('br', target_if_true, target_if_false) at guards, ('end',) at leaves"""
    prog = []

    def build(trs, depth):
        while True:
            heads = {t[depth] if depth < len(t) else ("end",) for t in trs}
            if len(heads) == 1:
                hd = heads.pop()
                if hd == ("end",):
                    prog.append(("end",))
                    return
                prog.append(hd)
                depth += 1
                continue
            if not all(hd[0] == "guard_in_snapshot" for hd in heads):
                raise ValueError("traces diverge at a non-guard event: %s" % (heads,))
            at = len(prog)
            prog.append(None)
            tgt = {}
            for val in (True, False):
                tgt[val] = len(prog)
                build([t for t in trs if t[depth] == ("guard_in_snapshot", val)], depth + 1)
            prog[at] = ("br", tgt[True], tgt[False])
            return
    build(traces, 0)
    # a row/name append becomes two micro-steps
    out, remap = [], {}
    for i, ins in enumerate(prog):
        remap[i] = len(out)
        if ins[0] == "append":
            out.append(("append_begin", ins[1]))
            out.append(("append_end", ins[1]))
        else:
            out.append(ins)
    return [("br", remap[i[1]], remap[i[2]]) if i[0] == "br" else i for i in out]


# ------------------------------------------------------------------------------------------------ BMC
class BMC:
    def __init__(self, programs, thread_prog, names=(1, 2), timeout_ms=600000):
        """programs: {'evaluate': prog, 'make_statistic': prog}; thread_prog: list of program keys, one per thread"""
        self.programs, self.thread_prog, self.names = programs, thread_prog, tuple(names)
        self.nthreads = len(thread_prog)
        self.T = sum(len([i for i in programs[k] if i[0] not in ("end",)]) for k in thread_prog) + 1
        allins = [i for k in set(thread_prog) for i in programs[k]]
        self.LOCKS = sorted({i[1] for i in allins if i[0] in ("acq", "rel")})
        self.FILES = sorted({i[1] for i in allins if i[0] in ("readcol", "append_begin", "append_end", "readall")} | {OUT, TMP})
        self.CAP = self.nthreads + 1
        self.s = z3.Solver()
        self.s.set("timeout", timeout_ms)
        self.queries = []
        self.solver_s = 0.0
        self._encode()

    def _state(self, k):
        n, names = self.nthreads, self.names
        return dict(pc=[z3.Int("pc%d_%d" % (t, k)) for t in range(n)],
                    lock={L: z3.Int("lk_%s_%d" % (L, k)) for L in self.LOCKS},
                    flen={f: z3.Int("len_%s_%d" % (f, k)) for f in self.FILES},
                    part={f: z3.Int("part_%s_%d" % (f, k)) for f in self.FILES},       # -1: no write in progress, else the writing thread
                    fcell={f: [z3.Int("cell_%s_%d_%d" % (f, i, k)) for i in range(self.CAP)] for f in self.FILES},
                    snap=[[z3.Bool("snap%d_%d_%d" % (t, ni, k)) for ni in range(len(names))] for t in range(n)],
                    torn=z3.Bool("torn_%d" % k))

    def _encode(self):
        s, n, names, CAP = self.s, self.nthreads, self.names, self.CAP
        self.nm = [z3.Int("nm%d" % t) for t in range(n)]
        for v in self.nm:
            s.add(z3.Or([v == x for x in names]))
        self.S = [self._state(k) for k in range(self.T + 1)]
        self.sch = [z3.Int("sch%d" % k) for k in range(self.T)]
        S0 = self.S[0]
        for c in ([S0["pc"][t] == 0 for t in range(n)] + [S0["lock"][L] == -1 for L in self.LOCKS] + [S0["flen"][f] == 0 for f in self.FILES]
                  + [S0["part"][f] == -1 for f in self.FILES] + [z3.Not(S0["torn"])] + [z3.Not(b) for t in range(n) for b in S0["snap"][t]]):
            s.add(c)
        self.blocked = []
        for k in range(self.T):
            a, b = self.S[k], self.S[k + 1]
            s.add(self.sch[k] >= 0, self.sch[k] < n)
            # symmetry breaking: threads running the same program with symbolic names are interchangeable, so thread t takes its first
            # step only after thread t-1 has taken one (every schedule is a renaming of one of this form)
            for t in range(1, n):
                if self.thread_prog[t] == self.thread_prog[t - 1]:
                    s.add(z3.Implies(self.sch[k] == t, z3.Or([self.sch[j] == t - 1 for j in range(k)] + [z3.BoolVal(False)])))
            steps = []
            en_all = []
            for t in range(n):
                prog = self.programs[self.thread_prog[t]]
                fin_t = z3.Or([a["pc"][t] == i for i, ins in enumerate(prog) if ins == ("end",)])
                en_all.append(z3.And(z3.Not(fin_t), z3.And([z3.Implies(a["pc"][t] == i, a["lock"][ins[1]] == -1) for i, ins in enumerate(prog) if ins[0] == "acq"] + [z3.BoolVal(True)])))
                for i, ins in enumerate(prog):
                    if ins == ("end",):
                        continue
                    eff, touched, nxt = [], set(), i + 1
                    torn_now = a["torn"]
                    if ins[0] == "acq":
                        eff += [a["lock"][ins[1]] == -1, b["lock"][ins[1]] == t]
                        touched.add(("lock", ins[1]))
                    elif ins[0] == "rel":
                        eff += [b["lock"][ins[1]] == -1]
                        touched.add(("lock", ins[1]))
                    elif ins[0] == "readcol":
                        f = ins[1]
                        for ni, x in enumerate(names):
                            eff.append(b["snap"][t][ni] == z3.Or([z3.And(j < a["flen"][f], a["fcell"][f][j] == x) for j in range(CAP)]))
                        touched.add(("snap", t))
                        torn_now = z3.Or(a["torn"], a["part"][f] != -1)
                    elif ins[0] == "readall":
                        torn_now = z3.Or(a["torn"], a["part"][ins[1]] != -1)
                    elif ins[0] == "br":
                        insnap = z3.Or([z3.And(self.nm[t] == x, a["snap"][t][ni]) for ni, x in enumerate(names)])
                        eff.append(b["pc"][t] == z3.If(insnap, ins[1], ins[2]))
                        nxt = None
                    elif ins[0] == "append_begin":
                        f = ins[1]
                        eff += [b["part"][f] == t, b["flen"][f] == a["flen"][f]] + [b["fcell"][f][j] == a["fcell"][f][j] for j in range(CAP)]
                        touched.add(("file", f))
                        torn_now = z3.Or(a["torn"], a["part"][f] != -1)      # two writers interleave inside one row
                    elif ins[0] == "append_end":
                        f = ins[1]
                        eff += [a["flen"][f] < CAP, b["flen"][f] == a["flen"][f] + 1, b["part"][f] == -1]
                        for j in range(CAP):
                            eff.append(b["fcell"][f][j] == z3.If(a["flen"][f] == j, self.nm[t], a["fcell"][f][j]))
                        touched.add(("file", f))
                    eff.append(b["torn"] == torn_now)
                    if nxt is not None:
                        eff.append(b["pc"][t] == nxt)
                    for t2 in range(n):
                        if t2 != t:
                            eff.append(b["pc"][t2] == a["pc"][t2])
                        if ("snap", t2) not in touched:
                            eff += [b["snap"][t2][ni] == a["snap"][t2][ni] for ni in range(len(names))]
                    for L in self.LOCKS:
                        if ("lock", L) not in touched:
                            eff.append(b["lock"][L] == a["lock"][L])
                    for f in self.FILES:
                        if ("file", f) not in touched:
                            eff += [b["flen"][f] == a["flen"][f], b["part"][f] == a["part"][f]] + [b["fcell"][f][j] == a["fcell"][f][j] for j in range(CAP)]
                    steps.append(z3.And(self.sch[k] == t, a["pc"][t] == i, *eff))
            allfin = self._allfin(a)
            self.blocked.append(z3.And(z3.Not(allfin), z3.And([z3.Not(e) for e in en_all])))
            stutter = z3.And(allfin, b["torn"] == a["torn"], *[b["pc"][t] == a["pc"][t] for t in range(n)], *[b["lock"][L] == a["lock"][L] for L in self.LOCKS],
                             *[b["flen"][f] == a["flen"][f] for f in self.FILES], *[b["part"][f] == a["part"][f] for f in self.FILES],
                             *[b["fcell"][f][j] == a["fcell"][f][j] for f in self.FILES for j in range(CAP)],
                             *[b["snap"][t][ni] == a["snap"][t][ni] for t in range(n) for ni in range(len(names))])
            s.add(z3.Or(stutter, *steps))

    def _allfin(self, st):
        out = []
        for t in range(self.nthreads):
            prog = self.programs[self.thread_prog[t]]
            out.append(z3.Or([st["pc"][t] == i for i, ins in enumerate(prog) if ins == ("end",)]))
        return z3.And(out)

    def _check(self, name, cond):
        t = time.time()
        r = str(self.s.check(cond))
        dt = time.time() - t
        self.solver_s += dt
        self.queries.append({"query": name, "result": r, "seconds": round(dt, 2)})
        return r

    def decode(self):
        m = self.s.model()
        sched = [m.eval(x, True).as_long() for x in self.sch]
        names = [m.eval(v, True).as_long() for v in self.nm]
        # executed instruction per step
        steps = []
        for k in range(self.T):
            t = sched[k]
            pcs = [m.eval(self.S[k]["pc"][u], True).as_long() for u in range(self.nthreads)]
            pcs2 = [m.eval(self.S[k + 1]["pc"][u], True).as_long() for u in range(self.nthreads)]
            if pcs == pcs2 and m.eval(self._allfin(self.S[k]), True):
                break
            prog = self.programs[self.thread_prog[t]]
            steps.append({"thread": t, "pc": pcs[t], "ins": list(prog[pcs[t]])})
        fs = self.S[self.T]
        outlen = m.eval(fs["flen"][OUT], True).as_long()
        return {"names": names, "steps": steps, "out_rows": [m.eval(fs["fcell"][OUT][j], True).as_long() for j in range(min(outlen, self.CAP))],
                "thread_prog": list(self.thread_prog)}

    def obligations(self, only=None):
        """-> list of (name, verdict, counterexample or None); verdict 'holds' / 'violated' / 'unknown'.  only: decide just this obligation (plus vacuity)"""
        fsT = self.S[self.T]
        allfin = self._allfin(fsT)
        res = []
        evaluators = [t for t in range(self.nthreads) if self.thread_prog[t] == "evaluate"]
        good = []
        for x in self.names:
            cnt = z3.Sum([z3.If(z3.And(j < fsT["flen"][OUT], fsT["fcell"][OUT][j] == x), 1, 0) for j in range(self.CAP)])
            submitted = z3.Or([self.nm[t] == x for t in evaluators])
            good.append(cnt == z3.If(submitted, 1, 0))
        for name, cond in (("exactly_one_row_per_distinct_subject", z3.And(allfin, z3.Not(z3.And(good)))),
                           ("no_call_blocks_forever", z3.Or(self.blocked)),
                           # inductive step for histories longer than the bound: once every call has returned no lock is left held
                           # (otherwise the next call, whoever makes it, blocks forever)
                           ("locks_free_once_all_calls_returned", z3.And(allfin, z3.Or([fsT["lock"][L] != -1 for L in self.LOCKS] + [z3.BoolVal(False)]))),
                           ("only_complete_rows_are_read", z3.Or([st["torn"] for st in self.S]))):
            if only is not None and name != only:
                continue
            r = self._check(name, cond)
            res.append((name, {"unsat": "holds", "sat": "violated"}.get(r, "unknown"), self.decode() if r == "sat" else None))
        r = self._check("vacuity_completion_reachable", allfin)
        res.append(("vacuity_completion_reachable", {"sat": "holds", "unsat": "violated"}.get(r, "unknown"), None))
        return res
