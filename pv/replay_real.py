"""Replay server: a pristine interpreter that runs witnesses / counterexamples on the REAL package through its
public API (real numpy, scipy, cc3d, csv, ruamel) and evaluates the property's concrete oracle (plain Python)."""
import importlib
import io
import json
import os
import sys
import traceback


def main():
    out = os.fdopen(os.dup(1), "w")
    devnull = open(os.devnull, "w")
    os.dup2(devnull.fileno(), 1)
    sys.stdout = devnull
    for line in sys.stdin:
        line = line.strip()
        if not line:
            continue
        req = json.loads(line)
        try:
            mod = importlib.import_module(req["harness"])
            fn = mod.REAL[req["kind"]]
            res = fn(req["case"], req["mode"], req.get("expect"))
        except BaseException as e:  # noqa
            res = {"error": "%s: %s | %s" % (type(e).__name__, e, traceback.format_exc(limit=6).replace("\n", " / "))}
        out.write(json.dumps(res) + "\n")
        out.flush()


if __name__ == "__main__":
    main()
