"""C08 - zero-true-positive cases report exactly what the edge-case handler prescribes (layer C + B, DESIGN 4/C08).

Symbolically executed (twin): MetricZeroTPEdgeCaseHandling.__init__/__call__, EdgeCaseHandler.handle_zero_tp/handle_empty_list_std,
EdgeCaseResult.value/__call__, _handle_zero_instances_cases, panoptic_evaluate (early exits, all three input types),
evaluate_matched_instance, PanopticaResult.__init__/calculate_all, Evaluation_List_Metric, fp/fn/rq/sq_*/sq_*_std.
The handler configuration is lazily symbolic: each (metric, scenario) value and the empty-list value is decided only when read.
"""
from __future__ import annotations

import z3

from ..sym import ENG, SNum, SBool, EngineSignal
from ..symnp import SArr
from ..run import H, explore_case, jsonable
from . import lazyhandler as LH
from . import realcommon as RC

PROP = "C08"
SQ = {"IOU": "sq", "DSC": "sq_dsc", "ASSD": "sq_assd", "clDSC": "sq_cldsc", "RVD": "sq_rvd"}
META = {
    "bounds": {"quick": "all 5 results x 4 scenarios x 5 metrics and the 5 empty-list values (decided lazily); directly constructed results with unbounded symbolic instance counts and tp=0; "
                        "_handle_zero_instances_cases with symbolic counts; every scenario through semantic / unmatched / matched input on tiny concrete maps; tp>0 under two configurations",
               "thorough": "same plus 2-D maps for the pipeline cases"},
    "stubs": ["cc3d / scipy.ndimage.label := connected-component contract", "multiprocessing.Pool := serial"],
    "assumptions": ["the scenario is determined by the statement's definition (no instances / empty prediction / empty reference / both present)",
                    "pipeline inputs are concrete representatives of each scenario; the counts are free in the directly constructed results"],
    "nontrivial_rule": "distinct (case, scenario, metric configuration read) combinations",
}

PIPE_INPUTS = {
    # scenario: (pred, ref)
    "NO_INSTANCES": ([0, 0, 0, 0], [0, 0, 0, 0]),
    "EMPTY_PRED": ([0, 0, 0, 0], [0, 1, 1, 0]),
    "EMPTY_REF": ([1, 1, 0, 0], [0, 0, 0, 0]),
    "NORMAL": ([1, 0, 0, 0], [0, 0, 0, 1]),
}


GROUPED_INPUT = ([1, 1, 1, 0, 9], [1, 0, 0, 0, 9])


def cases(tier):
    # the configuration of ONE metric (all four scenarios) and the empty-list value are symbolic per case; the other metrics
    # carry the fixed value ONE for every scenario, so that reading another metric's configuration is still detected
    out = []
    for sm in LH.METRICS5:
        out += [{"name": "direct_%s" % sm, "what": "direct", "sym_metric": sm},
                {"name": "handle_unmatched_%s" % sm, "what": "handle", "cls": "UnmatchedInstancePair", "sym_metric": sm},
                {"name": "handle_matched_%s" % sm, "what": "handle", "cls": "MatchedInstancePair", "sym_metric": sm}]
        for it in ("SEMANTIC", "UNMATCHED_INSTANCE", "MATCHED_INSTANCE"):
            for sc in LH.SCEN:
                out.append({"name": "pipe_%s_%s_%s" % (it, sc, sm), "what": "pipe", "input_type": it, "scenario": sc, "sym_metric": sm})
        # the "instances on both sides without a match" scenario reached through the evaluator with class groups: a pair found by the matcher
        # (IoU 1/3 >= 1/4) fails the decision threshold 1/2 in a multi-instance group evaluated AFTER a single-instance group
        out.append({"name": "pipe_grouped_%s" % sm, "what": "pipe_grouped", "sym_metric": sm})
    out.append({"name": "tp_positive_two_configs", "what": "tp_pos", "sym_metric": "DSC"})
    # a handler that configures exactly the evaluated metrics (and no others): still every zero-tp scenario reports the configured values
    for sm in ("DSC", "RVD"):
        out.append({"name": "direct_partial_%s" % sm, "what": "direct", "sym_metric": sm, "partial": True})
        for sc in LH.SCEN:
            out.append({"name": "pipe_partial_MATCHED_INSTANCE_%s_%s" % (sc, sm), "what": "pipe", "input_type": "MATCHED_INSTANCE", "scenario": sc, "sym_metric": sm, "partial": True})
    return out


def _scenario(n_pred, n_ref):
    if SBool(z3.And(n_pred == 0, n_ref == 0)):
        return "NO_INSTANCES"
    if SBool(n_ref == 0):
        return "EMPTY_REF"
    if SBool(n_pred == 0):
        return "EMPTY_PRED"
    return "NORMAL"


def _check_zero_tp(h, res, vs, scen, n_pred, n_ref, metrics):
    def zz(x):
        return x.t if isinstance(x, SNum) else z3.IntVal(int(x))
    h.ok("tp_is_zero", zz(res.tp) == 0)
    h.ok("fp_is_pred_count", zz(res.fp) == n_pred)
    h.ok("fn_is_ref_count", zz(res.fn) == n_ref)
    if not isinstance(res.tp, SNum) and int(res.tp) != 0:
        return       # not a zero-tp result at all: the configured values do not apply, the count obligations above have failed
    for m in metrics:
        try:
            got = getattr(res, SQ[m])
        except EngineSignal:
            raise
        except Exception as e:
            h.fail("sq_available", detail={"metric": m, "error": "%s: %s" % (type(e).__name__, str(e)[:100])})
            continue
        exp = LH.value_of(ENG.concretize(vs[(m, scen)], 0, 4))
        h.ok("sq_is_configured_value", LH.same_value(got, exp), detail={"metric": m, "scenario": scen, "got": repr(got), "configured": repr(exp)})
        try:
            gstd = getattr(res, SQ[m] + "_std")
        except EngineSignal:
            raise
        except Exception as e:
            h.fail("sq_std_available", detail={"metric": m, "error": "%s: %s" % (type(e).__name__, str(e)[:100])})
            continue
        estd = LH.value_of(ENG.concretize(vs["std"], 0, 4))
        h.ok("sq_std_is_empty_list_value", LH.same_value(gstd, estd), detail={"metric": m, "got": repr(gstd), "configured": repr(estd)})
        h.note_nontrivial((m, scen, repr(exp)))


def run_case(case):
    from ..twin import get_twin
    T = get_twin()
    MM = T.mod("panoptica.metrics.metrics")
    PR = T.mod("panoptica.panoptica_result")
    PE = T.mod("panoptica.panoptica_evaluator")
    PP = T.mod("panoptica.utils.processing_pair")
    IMm = T.mod("panoptica.instance_matcher")
    IA = T.mod("panoptica.instance_approximator")
    Metric = MM.Metric
    what = case["what"]
    sm = case["sym_metric"]
    partial = bool(case.get("partial"))
    metrics = [sm] if partial else list(LH.METRICS5)
    handler, vs, base = LH.build(T, metrics=metrics)
    base = base + [v == LH.RESULTS.index("ONE") for k, v in vs.items() if k != "std" and k[0] != sm]
    n_pred, n_ref = z3.Int("n_pred"), z3.Int("n_ref")
    base = base + [n_pred >= 0, n_ref >= 0]
    handler_b = vs_b = None
    if what == "tp_pos":
        handler_b, vs_b, base_b = LH.build(T, suffix="_b")
        base += base_b

    def decode(m):
        d = {"what": what, "cfg": LH.decode_cfg(vs, m, jsonable), "metrics": list(metrics)}
        if what in ("direct", "handle"):
            d["n_pred"], d["n_ref"] = jsonable(n_pred, m), jsonable(n_ref, m)
            d["cls"] = case.get("cls")
        if what == "pipe":
            d["input_type"], d["scenario"] = case["input_type"], case["scenario"]
        if what == "tp_pos":
            d["cfg_b"] = {k: v for k, v in LH.decode_cfg(vs_b, m, jsonable).items()}
        return d
    h = H(PROP, case["name"], decode, replay_kind="handler", max_witnesses=25)
    eval_metrics = [getattr(Metric, m) for m in metrics]

    def body():
        try:
            if what == "direct":
                res = PR.PanopticaResult(reference_arr=None, prediction_arr=None, num_pred_instances=SNum(n_pred), num_ref_instances=SNum(n_ref), tp=0,
                                         list_metrics={mm: [] for mm in eval_metrics}, edge_case_handler=handler)
                res.calculate_all(print_errors=False)
                scen = _scenario(n_pred, n_ref)
                _check_zero_tp(h, res, vs, scen, n_pred, n_ref, metrics)
            elif what == "handle":
                cls = getattr(PP, case["cls"])
                pair = cls(SArr([1, 0], "uint8"), SArr([0, 1], "uint8"), n_prediction_instance=SNum(n_pred), n_reference_instance=SNum(n_ref))
                res = PE._handle_zero_instances_cases(pair, edge_case_handler=handler, global_metrics=[], eval_metrics=eval_metrics)
                scen = _scenario(n_pred, n_ref)
                if scen == "NORMAL":
                    h.ok("non_empty_pair_passed_on", res is pair)
                else:
                    h.ok("empty_side_yields_result", isinstance(res, PR.PanopticaResult))
                    if isinstance(res, PR.PanopticaResult):
                        res.calculate_all(print_errors=False)
                        _check_zero_tp(h, res, vs, scen, n_pred, n_ref, metrics)
            elif what == "pipe":
                pl, rl = PIPE_INPUTS[case["scenario"]]
                it = case["input_type"]
                if it == "MATCHED_INSTANCE" and case["scenario"] == "NORMAL":
                    pl, rl = [1, 0, 0, 0], [0, 0, 0, 2]
                pa, ra = SArr(list(pl), "uint8").protect("caller prediction"), SArr(list(rl), "uint8").protect("caller reference")
                pair = getattr(PP.InputType, it)(pa, ra)
                res, _ = PE.panoptic_evaluate(pair, instance_approximator=IA.ConnectedComponentsInstanceApproximator(), instance_matcher=IMm.NaiveThresholdMatching(),
                                              instance_metrics=eval_metrics, global_metrics=[], edge_case_handler=handler, verbose=False)
                cnt = {"NO_INSTANCES": (0, 0), "EMPTY_PRED": (0, 1), "EMPTY_REF": (1, 0), "NORMAL": (1, 1)}[case["scenario"]]
                _check_zero_tp(h, res, vs, case["scenario"], z3.IntVal(cnt[0]), z3.IntVal(cnt[1]), metrics)
            elif what == "pipe_grouped":
                LG = T.mod("panoptica.utils.label_group")
                SC = T.mod("panoptica.utils.segmentation_class")
                pl, rl = GROUPED_INPUT
                groups = SC.SegmentationClassGroups({"S": LG.LabelGroup([9], True), "M": LG.LabelGroup([1, 2], False)})
                ev = PE.Panoptica_Evaluator(expected_input=PP.InputType.UNMATCHED_INSTANCE, instance_matcher=IMm.NaiveThresholdMatching(Metric.IOU, 0.25), segmentation_class_groups=groups,
                                            instance_metrics=eval_metrics, global_metrics=[], decision_metric=Metric.IOU, decision_threshold=0.5, edge_case_handler=handler)
                res = ev.evaluate(SArr(list(pl), "uint8", (1, 5)).protect("caller prediction"), SArr(list(rl), "uint8", (1, 5)).protect("caller reference"), verbose=False)["m"][0]   # 2-D: clDice needs it
                _check_zero_tp(h, res, vs, "NORMAL", z3.IntVal(1), z3.IntVal(1), metrics)
            else:
                # tp > 0: the handler has no influence - same input under two independent configurations
                outs = []
                for hd in (handler, handler_b):
                    pair = PP.MatchedInstancePair(SArr([1, 1, 0, 2], "uint8"), SArr([1, 0, 0, 3], "uint8"))
                    res, _ = PE.panoptic_evaluate(pair, instance_metrics=[Metric.DSC, Metric.IOU, Metric.RVD], global_metrics=[], edge_case_handler=hd, verbose=False)
                    outs.append({k: getattr(res, k) for k in ("tp", "fp", "fn", "sq", "sq_dsc", "sq_rvd", "rq", "pq", "sq_std", "sq_dsc_std")})
                a, b = outs
                for k in a:
                    va, vb = a[k], b[k]
                    same = (va.t == vb.t) if isinstance(va, SNum) and isinstance(vb, SNum) else LH.same_value(va, vb) if not isinstance(va, SNum) and not isinstance(vb, SNum) else (SNum(va) == SNum(vb)).t
                    h.ok("handler_has_no_influence_with_tp", same, detail={"key": k, "a": repr(va), "b": repr(vb)})
                h.ok("tp_positive", a["tp"] == 1)
                h.note_nontrivial("tp>0-a")
                h.note_nontrivial("tp>0-b")
        except EngineSignal:
            raise
        except Exception as e:
            h.fail("completes_without_raising", detail="%s: %s" % (type(e).__name__, str(e)[:160]))
            return
        h.witness(expect=None)
    return explore_case(h, body, base=base, concretize_div=16, time_budget=3000)


# ================================================================================================ real-package side
def real_handler(case, mode, expect):
    import numpy as np
    import panoptica
    from panoptica import (Metric, PanopticaResult, UnmatchedInstancePair, MatchedInstancePair, SemanticPair, NaiveThresholdMatching,
                           ConnectedComponentsInstanceApproximator, InputType)
    from panoptica.panoptica_evaluator import panoptic_evaluate, _handle_zero_instances_cases
    RC.use_serial_pool(True)
    what = case["what"]
    mnames = case.get("metrics") or list(LH.METRICS5)
    hd = LH.real_handler(case["cfg"], metrics=mnames)
    metrics = [getattr(Metric, m) for m in mnames]
    obs = {}
    bad = None

    def scen_of(npred, nref):
        return "NO_INSTANCES" if npred == 0 and nref == 0 else "EMPTY_REF" if nref == 0 else "EMPTY_PRED" if npred == 0 else "NORMAL"

    def check(res, scen, npred, nref):
        if int(res.tp) != 0 or int(res.fp) != npred or int(res.fn) != nref:
            return "tp_is_zero: tp/fp/fn = %s/%s/%s for %d predicted and %d reference instances" % (res.tp, res.fp, res.fn, npred, nref)
        for m in mnames:
            exp = LH.value_of(LH.RESULTS.index(case["cfg"]["%s:%s" % (m, scen)]))
            try:
                got = getattr(res, SQ[m])
            except Exception as e:
                return "sq_available: %s raised %s: %s" % (SQ[m], type(e).__name__, e)
            obs[SQ[m]] = repr(got)
            if not LH.same_value(got, exp):
                return "sq_is_configured_value: %s=%r, handler configures %r for %s/%s" % (SQ[m], got, exp, m, scen)
            try:
                gs = getattr(res, SQ[m] + "_std")
            except Exception as e:
                return "sq_std_available: %s_std raised %s: %s" % (SQ[m], type(e).__name__, e)
            es = LH.value_of(LH.RESULTS.index(case["cfg"]["std"]))
            if not LH.same_value(gs, es):
                return "sq_std_is_empty_list_value: %s_std=%r, configured %r" % (SQ[m], gs, es)
        return None
    try:
        if what == "direct":
            res = PanopticaResult(reference_arr=None, prediction_arr=None, num_pred_instances=case["n_pred"], num_ref_instances=case["n_ref"], tp=0,
                                  list_metrics={mm: [] for mm in metrics}, edge_case_handler=hd)
            res.calculate_all()
            bad = check(res, scen_of(case["n_pred"], case["n_ref"]), case["n_pred"], case["n_ref"])
        elif what == "handle":
            cls = UnmatchedInstancePair if case["cls"] == "UnmatchedInstancePair" else MatchedInstancePair
            pair = cls(np.array([1, 0], dtype=np.uint8), np.array([0, 1], dtype=np.uint8), n_prediction_instance=case["n_pred"], n_reference_instance=case["n_ref"])
            res = _handle_zero_instances_cases(pair, edge_case_handler=hd, global_metrics=[], eval_metrics=metrics)
            scen = scen_of(case["n_pred"], case["n_ref"])
            if scen == "NORMAL":
                bad = None if res is pair else "non_empty_pair_passed_on: got %r" % type(res).__name__
            elif not isinstance(res, PanopticaResult):
                bad = "empty_side_yields_result: got %r" % type(res).__name__
            else:
                res.calculate_all()
                bad = check(res, scen, case["n_pred"], case["n_ref"])
        elif what == "pipe":
            pl, rl = PIPE_INPUTS[case["scenario"]]
            if case["input_type"] == "MATCHED_INSTANCE" and case["scenario"] == "NORMAL":
                pl, rl = [1, 0, 0, 0], [0, 0, 0, 2]
            pair = getattr(InputType, case["input_type"])(np.array(pl, dtype=np.uint8), np.array(rl, dtype=np.uint8))
            res, _ = panoptic_evaluate(pair, instance_approximator=ConnectedComponentsInstanceApproximator(), instance_matcher=NaiveThresholdMatching(),
                                       instance_metrics=metrics, global_metrics=[], edge_case_handler=hd, verbose=False)
            cnt = {"NO_INSTANCES": (0, 0), "EMPTY_PRED": (0, 1), "EMPTY_REF": (1, 0), "NORMAL": (1, 1)}[case["scenario"]]
            bad = check(res, case["scenario"], cnt[0], cnt[1])
        elif what == "pipe_grouped":
            from panoptica import Panoptica_Evaluator
            from panoptica.utils.label_group import LabelGroup
            from panoptica.utils.segmentation_class import SegmentationClassGroups
            pl, rl = GROUPED_INPUT
            ev = Panoptica_Evaluator(expected_input=InputType.UNMATCHED_INSTANCE, instance_matcher=NaiveThresholdMatching(Metric.IOU, 0.25),
                                     segmentation_class_groups=SegmentationClassGroups({"S": LabelGroup([9], True), "M": LabelGroup([1, 2], False)}),
                                     instance_metrics=metrics, global_metrics=[], decision_metric=Metric.IOU, decision_threshold=0.5, edge_case_handler=hd)
            res = ev.evaluate(np.array([pl], dtype=np.uint8), np.array([rl], dtype=np.uint8), verbose=False)["m"][0]
            bad = check(res, "NORMAL", 1, 1)
        else:
            outs = []
            for cfg in (case["cfg"], case["cfg_b"]):
                pair = MatchedInstancePair(np.array([1, 1, 0, 2], dtype=np.uint8), np.array([1, 0, 0, 3], dtype=np.uint8))
                res, _ = panoptic_evaluate(pair, instance_metrics=[Metric.DSC, Metric.IOU, Metric.RVD], global_metrics=[], edge_case_handler=LH.real_handler(cfg), verbose=False)
                outs.append({k: getattr(res, k) for k in ("tp", "fp", "fn", "sq", "sq_dsc", "sq_rvd", "rq", "pq", "sq_std", "sq_dsc_std")})
            for k in outs[0]:
                if not LH.same_value(outs[0][k], outs[1][k]):
                    bad = "handler_has_no_influence_with_tp: %s = %r vs %r" % (k, outs[0][k], outs[1][k])
    except Exception as e:
        bad = "completes_without_raising: %s: %s" % (type(e).__name__, str(e)[:200])
    return {"match": True, "violates": bad is not None, "reason": bad, "observed": obs}


REAL = {"handler": real_handler}
