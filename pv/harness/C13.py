"""C13 - global binary metrics depend only on the two foregrounds (layer B, DESIGN 4/C13).

Symbolically executed (twin): PanopticaResult.__init__ (binarisation, global part), _calc_global_bin_metric, EdgeCaseHandler.handle_zero_tp,
MetricZeroTPEdgeCaseHandling.__call__, Metric.__call__ and the Dice/IoU/RVD (and 1-D ASSD in the thorough tier) kernels on the binarised arrays.
"""
from __future__ import annotations

from fractions import Fraction

import z3

from ..sym import ENG, SNum, SBool, EngineSignal, declare_bounds
from ..symnp import SArr, WriteToProtected
from ..run import H, explore_case, jsonable
from . import lazyhandler as LH
from .common import close

PROP = "C13"
GM = ["DSC", "IOU", "RVD"]
ATTR = {"DSC": "global_bin_dsc", "IOU": "global_bin_iou", "RVD": "global_bin_rvd", "ASSD": "global_bin_assd"}
META = {
    "bounds": {"quick": "label maps 1-D 4 and 2-D 2x2 with voxel labels 0..2 (uint8 and uint16); global metrics DSC, IOU, RVD; lazily symbolic handler (one metric's four scenario values per case)",
               "thorough": "1-D 6, 2-D 2x3; labels 0..3"},
    "stubs": [],
    "assumptions": ["float64 as exact rationals; score quotients decided per concrete (numerator, denominator)", "arrays larger than the bound are outside the claim"],
    "nontrivial_rule": "paths with both foregrounds non-empty and partially overlapping, plus each empty-side scenario per configured value",
}


def cases(tier):
    shapes = [(4,), (2, 2)] if tier == "quick" else [(6,), (2, 3)]
    out = []
    for shp in shapes:
        for sm in GM:
            for dt in (("uint8",) if tier == "quick" and len(shp) == 2 else ("uint8", "uint16")):
                out.append({"name": "%s_%s_%s" % ("x".join(map(str, shp)), sm, dt), "shape": shp, "sym_metric": sm, "dtype": dt, "K": 2 if tier == "quick" else 3})
    # through the whole pipeline: matched input, the same metrics requested per instance and globally
    for f in range(9):
        out.append({"name": "pipeline_1d4_f%d" % f, "what": "pipeline", "shape": (4,), "fix": [f // 3, f % 3], "sym_metric": "DSC", "dtype": "uint8", "K": 2})
    # label values over the whole dtype range (the foreground is 'label != 0', whatever the label)
    for dt in (("uint16",) if tier == "quick" else ("uint16", "uint32", "uint64")):
        out.append({"name": "3_DSC_%s_anylabel" % dt, "shape": (3,), "sym_metric": "DSC", "dtype": dt, "K": min(2 ** 24, 2 ** (8 * int(dt[4:]) // 8)) - 1})
    return out


def _run_pipeline(case):
    from ..twin import get_twin
    from . import e2e
    T = get_twin()
    P = T.panoptica
    shape = tuple(case["shape"])
    pv, rv, base = e2e.sym_arrays(shape, case["K"], case["dtype"])
    base += [pv[0] == case["fix"][0], rv[0] == case["fix"][1]]
    X = [v != 0 for v in rv]
    Y = [v != 0 for v in pv]
    cnt = lambda cs: z3.Sum([z3.If(c, 1, 0) for c in cs])
    A, B = cnt(X), cnt(Y)
    I = cnt([z3.And(x, y) for x, y in zip(X, Y)])

    def decode(m):
        return {"what": "pipeline", "shape": list(shape), "dtype": case["dtype"], "pred": [jsonable(v, m) for v in pv], "ref": [jsonable(v, m) for v in rv], "cfg": None}
    h = H(PROP, case["name"], decode, replay_kind="pipeline", max_witnesses=30)

    def body():
        ev = P.Panoptica_Evaluator(expected_input=P.InputType.MATCHED_INSTANCE, instance_metrics=[P.Metric.DSC, P.Metric.IOU], global_metrics=[P.Metric.DSC, P.Metric.IOU])
        try:
            res = ev.evaluate(SArr(list(pv), case["dtype"], shape).protect("caller prediction"), SArr(list(rv), case["dtype"], shape).protect("caller reference"), verbose=False)["ungrouped"][0]
            gd, gi = res.global_bin_dsc, res.global_bin_iou
        except EngineSignal:
            raise
        except WriteToProtected as e:
            h.fail("no_input_mutation", detail=str(e))
            return
        except Exception as e:
            h.fail("completes", detail="%s: %s" % (type(e).__name__, str(e)[:140]))
            return
        if bool(SBool(z3.And(A > 0, B > 0))):
            for name, v, num, den in (("DSC", gd, 2 * I, A + B), ("IOU", gi, I, A + B - I)):
                if not isinstance(v, SNum):
                    h.ok("value_is_metric_of_foregrounds", False, detail={"metric": name, "value": repr(v)})
                    continue
                t = z3.ToReal(v.t) if v.t.sort() == z3.IntSort() else v.t
                h.ok("value_is_metric_of_foregrounds", t * z3.ToReal(den) == z3.ToReal(num), detail={"metric": name, "through": "pipeline"})
            h.note_nontrivial((str(gd), str(gi), int(e2e.conc(res.tp))))
        h.witness(expect=None)
    return explore_case(h, body, base=base, concretize_div=64, time_budget=3000)


def run_case(case):
    if case.get("what") == "pipeline":
        return _run_pipeline(case)
    from ..twin import get_twin
    T = get_twin()
    MM = T.mod("panoptica.metrics.metrics")
    PR = T.mod("panoptica.panoptica_result")
    Metric = MM.Metric
    shape = tuple(case["shape"])
    n = 1
    for s_ in shape:
        n *= s_
    K = case["K"]
    pv = [z3.Int("p%d" % i) for i in range(n)]
    rv = [z3.Int("r%d" % i) for i in range(n)]
    handler, vs, base = LH.build(T, metrics=GM + ["ASSD", "clDSC"])
    sm = case["sym_metric"]
    base += [v == LH.RESULTS.index("ONE") for k, v in vs.items() if k != "std" and k[0] != sm]
    for v in pv + rv:
        declare_bounds(v, 0, K)
        base.append(z3.And(v >= 0, v <= K))
    X = [v != 0 for v in rv]     # reference foreground
    Y = [v != 0 for v in pv]     # prediction foreground
    cnt = lambda cs: z3.Sum([z3.If(c, 1, 0) for c in cs])
    A, B = cnt(X), cnt(Y)
    I = cnt([z3.And(x, y) for x, y in zip(X, Y)])
    U = A + B - I

    def decode(m):
        return {"shape": list(shape), "dtype": case["dtype"], "pred": [jsonable(v, m) for v in pv], "ref": [jsonable(v, m) for v in rv], "cfg": LH.decode_cfg(vs, m, jsonable)}
    h = H(PROP, case["name"], decode, replay_kind="global", max_witnesses=40)
    gms = [getattr(Metric, m) for m in GM]

    def body():
        pa = SArr(list(pv), case["dtype"], shape).protect("caller prediction")
        ra = SArr(list(rv), case["dtype"], shape).protect("caller reference")
        try:
            res = PR.PanopticaResult(reference_arr=ra, prediction_arr=pa, num_pred_instances=0, num_ref_instances=0, tp=0, list_metrics={},
                                     edge_case_handler=handler, global_metrics=gms)
            vals = {m: getattr(res, ATTR[m]) for m in GM}
        except EngineSignal:
            raise
        except WriteToProtected as e:
            h.fail("no_input_mutation", detail=str(e))
            return
        except Exception as e:
            h.fail("completes", detail="%s: %s" % (type(e).__name__, str(e)[:140]))
            return
        pe, re_ = bool(SBool(B == 0)), bool(SBool(A == 0))
        if not pe and not re_:
            for m in GM:
                v = vals[m]
                if not isinstance(v, SNum):
                    h.ok("value_is_metric_of_foregrounds", False, detail={"metric": m, "value": repr(v)})
                    continue
                t = z3.ToReal(v.t) if v.t.sort() == z3.IntSort() else v.t
                if m == "DSC":
                    h.ok("value_is_metric_of_foregrounds", t * z3.ToReal(A + B) == z3.ToReal(2 * I), detail={"metric": m})
                elif m == "IOU":
                    h.ok("value_is_metric_of_foregrounds", t * z3.ToReal(U) == z3.ToReal(I), detail={"metric": m})
                else:
                    h.ok("value_is_metric_of_foregrounds", t * z3.ToReal(A) == z3.ToReal(B - A), detail={"metric": m})
            c = vals["IOU"].concrete() if isinstance(vals["IOU"], SNum) else None
            if c is not None and 0 < c < 1:
                h.note_nontrivial(("overlap", str(c)))
        else:
            scen = "NO_INSTANCES" if (pe and re_) else ("EMPTY_PRED" if pe else "EMPTY_REF")
            for m in GM:
                exp = LH.value_of(ENG.concretize(vs[(m, scen)], 0, 4))
                got = vals[m]
                if isinstance(got, SNum):
                    c = got.concrete()
                    got = float(c) if c is not None else got
                h.ok("empty_side_reports_configured_value", LH.same_value(got, exp), detail={"metric": m, "scenario": scen, "got": repr(got), "configured": repr(exp)})
                h.note_nontrivial((scen, m, repr(exp)))
        h.witness(expect={m: (vals[m] if not isinstance(vals[m], float) else repr(vals[m])) for m in GM})
    return explore_case(h, body, base=base, concretize_div=64, time_budget=3000)


# ================================================================================================ real-package side
def real_global(case, mode, expect):
    import numpy as np
    from panoptica import Panoptica_Evaluator, InputType, Metric
    from . import realcommon as RC
    RC.use_serial_pool(True)
    shape = tuple(case["shape"])
    pred = np.array(case["pred"], dtype=case["dtype"]).reshape(shape)
    ref = np.array(case["ref"], dtype=case["dtype"]).reshape(shape)
    p0, r0 = pred.copy(), ref.copy()
    hd = LH.real_handler(case["cfg"])
    ev = Panoptica_Evaluator(expected_input=InputType.MATCHED_INSTANCE, instance_metrics=[Metric.DSC, Metric.IOU], global_metrics=[getattr(Metric, m) for m in GM], edge_case_handler=hd)
    obs, bad = {}, None
    try:
        res = ev.evaluate(pred, ref, verbose=False)["ungrouped"][0]
        vals = {m: getattr(res, ATTR[m]) for m in GM}
    except Exception as e:
        return {"match": False, "violates": True, "reason": "completes: %s: %s" % (type(e).__name__, str(e)[:160]), "observed": None}
    if not (np.array_equal(pred, p0) and np.array_equal(ref, r0)):
        bad = "no_input_mutation: evaluate modified the caller's arrays"
    A, B = int((ref != 0).sum()), int((pred != 0).sum())
    I = int(((ref != 0) & (pred != 0)).sum())
    U = A + B - I
    for m in GM:
        obs[m] = repr(vals[m])
    if bad is None:
        if A > 0 and B > 0:
            want = {"DSC": Fraction(2 * I, A + B), "IOU": Fraction(I, U), "RVD": Fraction(B - A, A)}
            for m in GM:
                if vals[m] is None or not close(float(vals[m]), float(want[m]), 1e-12):
                    bad = "value_is_metric_of_foregrounds: global_bin_%s=%r, foregrounds give %s" % (m.lower(), vals[m], want[m])
                    break
        else:
            scen = "NO_INSTANCES" if (A == 0 and B == 0) else ("EMPTY_PRED" if B == 0 else "EMPTY_REF")
            for m in GM:
                exp = LH.value_of(LH.RESULTS.index(case["cfg"]["%s:%s" % (m, scen)]))
                if not LH.same_value(vals[m], exp):
                    bad = "empty_side_reports_configured_value: global_bin_%s=%r, handler configures %r for %s" % (m.lower(), vals[m], exp, scen)
                    break
    return {"match": True, "violates": bad is not None, "reason": bad, "observed": obs}


def real_pipeline(case, mode, expect):
    import numpy as np
    from panoptica import Panoptica_Evaluator, InputType, Metric
    from . import realcommon as RC
    RC.use_serial_pool(True)
    shape = tuple(case["shape"])
    pred = np.array(case["pred"], dtype=case["dtype"]).reshape(shape)
    ref = np.array(case["ref"], dtype=case["dtype"]).reshape(shape)
    ev = Panoptica_Evaluator(expected_input=InputType.MATCHED_INSTANCE, instance_metrics=[Metric.DSC, Metric.IOU], global_metrics=[Metric.DSC, Metric.IOU])
    res = ev.evaluate(pred.copy(), ref.copy(), verbose=False)["ungrouped"][0]
    A, B = int((ref != 0).sum()), int((pred != 0).sum())
    I = int(((ref != 0) & (pred != 0)).sum())
    bad = None
    if A > 0 and B > 0:
        for name, got, want in (("dsc", res.global_bin_dsc, Fraction(2 * I, A + B)), ("iou", res.global_bin_iou, Fraction(I, A + B - I))):
            if got is None or not close(float(got), float(want), 1e-12):
                bad = "value_is_metric_of_foregrounds: global_bin_%s=%r through the pipeline, foregrounds give %s (pred %s ref %s)" % (name, got, want, pred.tolist(), ref.tolist())
    return {"match": True, "violates": bad is not None, "reason": bad, "observed": None}


REAL = {"global": real_global, "pipeline": real_pipeline}
