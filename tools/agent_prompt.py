#!/usr/bin/env python3
import json, sys
pid, wt = sys.argv[1], sys.argv[2]
p = [json.loads(l) for l in open('/verif/properties.jsonl') if json.loads(l)['id'] == pid][0]
print(f"""You are helping to evaluate a verification effort for the Python library BrainLesion/panoptica (instance-wise segmentation quality metrics). You have your own scratch git worktree of the library at {wt} (a detached checkout; work ONLY inside that directory, never touch /repo or /verif, and do not read anything under /verif).

Here is a semantic property the library is supposed to satisfy:

  Title: {p['title']}
  Statement: {p['statement']}
  Quantified over: {p['quantifier']['text']}
  Code it is anchored in: {', '.join(p['anchors']['files'])}

Your task: produce up to TWO independent, realistic source changes to the library (each the kind of mistake or "optimisation"/refactoring a developer could plausibly make) such that each change
  (1) still imports/compiles,
  (2) still passes the existing test suite: run `cd {wt} && /venv/bin/python -m pytest -q -p no:cacheprovider --timeout=900 unit_tests` and compare against the unchanged tree (3 tests named test_example_scripts* fail on the unchanged tree too; everything else must still pass),
  (3) breaks the property above, but only under something specific: an unusual input (e.g. particular label values, dtypes, ties, exact-threshold scores, empty sides, instance layouts), a particular option combination, a multi-step sequence, or two cooperating sites that each look fine alone. Do NOT produce changes that ordinary use would expose at once (e.g. that break every evaluation).

For each change deliver, inside {wt}/_out/<n>/ (n = 1, 2):
  - patch.diff : `git diff` of the change against the worktree HEAD (only files under panoptica/), applying cleanly with `git apply` at the repository root;
  - demo.py : a small standalone program run as `cd <repo root> && PANOPTICA_CITATION_REMINDER=false /venv/bin/python demo.py` (it will be copied to the root of a checkout) that exits 0 and prints PASS when the property holds on its input and exits 1 and prints FAIL when it is broken - it must FAIL with your change and PASS without it. Use only the library's public behaviour in the demo;
  - note.txt : 3-6 lines: what the change is, why it breaks the property, and what specifically is needed for the breakage to manifest.
Before finishing, verify both directions yourself (demo passes on clean tree, fails with the patch; test suite still passes with the patch), then restore the worktree to a clean state (`git checkout -- .`) leaving only the _out directory. Keep each patch small (a few lines). Never use `git stash` (the stash is shared between worktrees); use `git diff > file; git checkout -- .; git apply file` instead. Note: the library uses multiprocessing.Pool internally, so each evaluation takes ~0.1-0.3 s; keep demos short. Report in your final message the two changes in one paragraph each.""")
