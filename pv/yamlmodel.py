"""Structural-identity model of ruamel.yaml's safe representer / constructor (DESIGN 2.4): the YAML TEXT layer is trusted
(exercised for real on every replay); what is modelled is the dispatch the repo relies on - register_class, to_yaml / from_yaml with
represent_mapping / represent_scalar / construct_mapping(deep=True) - on a node tree stored in the file model."""
from __future__ import annotations

import builtins
import types

from .sym import Sym


class Node:
    def __init__(self, kind, tag, value):
        self.kind, self.tag, self.value = kind, tag, value

    def __repr__(self):
        return "Node(%s,%s,%r)" % (self.kind, self.tag, self.value)


class RepresenterError(Exception):
    pass


class ConstructorError(Exception):
    pass


class _Representer:
    def __init__(self, yaml):
        self.yaml = yaml
        self.ignore_aliases = lambda *a: False

    def represent_mapping(self, tag, mapping, flow_style=None):
        items = list(mapping.items()) if hasattr(mapping, "items") else list(mapping)
        return Node("map", tag, [(self.represent(k), self.represent(v)) for k, v in items])

    def represent_scalar(self, tag, value, style=None):
        return Node("scalar", tag, value)

    def represent_sequence(self, tag, seq, flow_style=None):
        return Node("seq", tag, [self.represent(x) for x in seq])

    def represent(self, data):
        cls = type(data)
        if cls in self.yaml.registered:
            return cls.to_yaml(self, data)
        if data is None or isinstance(data, (builtins.bool, builtins.int, builtins.float, builtins.str)) or isinstance(data, Sym):
            return Node("scalar", None, data)
        if isinstance(data, dict):
            return self.represent_mapping(None, data)
        if isinstance(data, builtins.list):
            return self.represent_sequence(None, data)
        if isinstance(data, builtins.tuple):
            # the safe representer knows tuples (written as sequences, read back as lists)
            return self.represent_sequence(None, builtins.list(data))
        if isinstance(data, builtins.set):
            return Node("map", "!!set", [(self.represent(k), Node("scalar", None, None)) for k in data])
        raise RepresenterError("cannot represent an object of type %s" % cls.__name__)


class _Constructor:
    def __init__(self, yaml):
        self.yaml = yaml

    def construct_mapping(self, node, deep=False):
        if node.kind != "map":
            raise ConstructorError("expected a mapping node, but found %s" % node.kind)
        out = {}
        for k, v in node.value:
            kk = self.construct(k)
            try:
                hash(kk)
            except TypeError:
                raise ConstructorError("found unhashable key")
            out[kk] = self.construct(v)
        return out

    def construct(self, node):
        if node.tag is not None and node.tag.startswith("!") and node.tag != "!!set":
            name = node.tag[1:]
            cls = None
            for c in self.yaml.registered:
                if c.__name__ == name:
                    cls = c
            if cls is None:
                raise ConstructorError("could not determine a constructor for the tag %r" % node.tag)
            return cls.from_yaml(self, node)
        if node.kind == "scalar":
            return node.value
        if node.kind == "seq":
            return [self.construct(x) for x in node.value]
        if node.kind == "map":
            return self.construct_mapping(node, deep=True)
        raise ConstructorError(node.kind)


def node_equal(a, b):
    """structural equality of node trees; symbolic scalars compare through z3 (returns a list of z3 equalities to conjoin, or False)"""
    import z3
    from .sym import SNum, SBool
    if a.kind != b.kind or a.tag != b.tag:
        return False
    if a.kind == "scalar":
        x, y = a.value, b.value
        if isinstance(x, Sym) or isinstance(y, Sym):
            try:
                e = (x == y)
            except Exception:
                return False
            if isinstance(e, SBool):
                return [e.t]
            return [z3.BoolVal(builtins.bool(e))]
        if isinstance(x, builtins.float) and isinstance(y, builtins.float) and x != x and y != y:
            return []
        return [] if (type(x) is type(y) and x == y) else False
    if len(a.value) != len(b.value):
        return False
    out = []
    for p, q in zip(a.value, b.value):
        pairs = [(p, q)] if a.kind == "seq" else [(p[0], q[0]), (p[1], q[1])]
        for u, v in pairs:
            r = node_equal(u, v)
            if r is False:
                return False
            out += r
    return out


def make_module(fs):
    mod = types.ModuleType("ruamel.yaml")

    class YAML:
        def __init__(self, typ=None, **kw):
            self.typ = typ
            self.registered = []
            self.default_flow_style = None
            self.representer = _Representer(self)
            self.constructor = _Constructor(self)

        def register_class(self, cls):
            if cls not in self.registered:
                self.registered.append(cls)
            return cls

        def dump(self, data, stream):
            node = self.representer.represent(data)
            fs._op("yaml_dump", builtins.str(stream))
            fs.files[builtins.str(stream)] = [node]

        def load(self, stream):
            p = builtins.str(stream)
            fs._op("yaml_load", p)
            if p not in fs.files:
                raise FileNotFoundError(p)
            return self.constructor.construct(fs.files[p][0])
    mod.YAML = YAML
    top = types.ModuleType("ruamel")
    top.yaml = mod
    return {"ruamel": top, "ruamel.yaml": mod}
