"""fill the <!-- SEEDS:x --> regions of DESIGN.md from seeded/matrix*.txt (via tools/seedtable.py)"""
import re
import subprocess
p = "/verif/DESIGN.md"
s = open(p).read()
for sel in ("_a", "_b", "_c", "_d"):
    r = subprocess.run(["python3", "/verif/tools/seedtable.py", sel], capture_output=True, text=True)
    body = r.stdout.strip() + "\n\n" + r.stderr.strip() + "\n"
    s = re.sub(r"<!-- SEEDS:%s -->.*?<!-- /SEEDS:%s -->" % (sel, sel), lambda m: "<!-- SEEDS:%s -->\n%s<!-- /SEEDS:%s -->" % (sel, body, sel), s, flags=re.S)
open(p, "w").write(s)
