#!/usr/bin/env python3
# batch d: like agent_prompt2.py but asks for ONE change (time-boxed session)
import sys, subprocess
pid, wt = sys.argv[1], sys.argv[2]
txt = subprocess.check_output(['python3', '/verif/tools/agent_prompt2.py', pid, wt]).decode()
txt = txt.replace("produce up to TWO independent, realistic source changes to the library (each the kind", "produce ONE realistic source change to the library (the kind")
txt = txt.replace("such that each change", "such that the change")
txt = txt.replace("For each change deliver, inside %s/_out/<n>/ (n = 1, 2):" % wt, "Deliver, inside %s/_out/1/ :" % wt)
txt = txt.replace("Report in your final message the two changes in one paragraph each.", "You have about 15 minutes: prefer a small, well-verified change over an ambitious one. Report in your final message the change in one paragraph.")
print(txt)
