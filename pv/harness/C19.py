"""C19 - saving and loading a configuration reproduces the same evaluator (layer C with the YAML structural model, DESIGN 4/C19).

Symbolically executed (twin): SupportsConfig.save_to_config/load_from_config/to_yaml/from_yaml, _save_yaml/_load_yaml/_register_helper_classes,
_Enum_Compare.to_yaml/from_yaml, every _yaml_repr, and the constructors of Panoptica_Evaluator, NaiveThresholdMatching, MaximizeMergeMatching,
ConnectedComponentsInstanceApproximator, EdgeCaseHandler, MetricZeroTPEdgeCaseHandling, LabelGroup, LabelMergeGroup, SegmentationClassGroups.
ruamel's representer/constructor is the structural-identity model (pv/yamlmodel.py).  Thresholds are free reals, flags free Booleans, every
enumerated choice is decided lazily by the solver.
"""
from __future__ import annotations

import z3

from ..sym import ENG, SNum, SBool, Sym, EngineSignal, declare_bounds
from ..run import H, explore_case, jsonable
from .. import fsmodel, yamlmodel
from .common import fl

PROP = "C19"
META = {
    "bounds": {"quick": "evaluator: input type x approximator backend (none/default/cc3d/scipy) x matcher (none / threshold with metric, threshold, many-to-one / merge) x decision metric+threshold x metric selections (incl. empty lists) x "
                        "three flags x class groups (plain, merge, single-instance; ordinary group names or user names that look like the auto-generated group_<i>) x custom handler; each component alone; thresholds free reals, flags free Booleans",
               "thorough": "same (the space is finite apart from the reals and is explored completely)"},
    "stubs": ["ruamel.yaml := structural-identity representer/constructor over a node tree (register_class, to_yaml/from_yaml dispatch, construct_mapping)", "file layer := in-memory model"],
    "assumptions": ["the YAML text layer (quoting, number formatting, tags) is trusted and run for real on every replay", "behavioural equality on every input follows from equal settings by C15",
                    "shipped configuration files are loaded for real in the replay of every evaluator witness"],
    "nontrivial_rule": "distinct combinations of choices away from the defaults",
}
IM_CHOICES = [None, [], ["DSC"], ["IOU", "RVD"]]
GM_CHOICES = [["DSC"], [], ["DSC", "IOU"]]


BYNAME = "pv_c19_byname_tmp_config"


def cases(tier):
    out = []
    for it in range(3):
        for mk in range(3):
            out.append({"name": "evaluator_input%d_matcher%d" % (it, mk), "what": "evaluator", "it": it, "mk": mk})
    out.append({"name": "evaluator_used_then_saved", "what": "used", "it": 0, "mk": 1})
    # the by-name API as a sequence: save A under a name, load it, save B under the same name, load again -> B
    out.append({"name": "by_name_save_load_save_load", "what": "byname"})
    for comp in ("naive", "merge", "cca", "handler", "zerotp", "labelgroup", "mergegroup", "classgroups", "enums"):
        out.append({"name": "component_" + comp, "what": comp})
    return out


class Chooser:
    """symbolic side: choices are lazily concretised solver variables, reals/flags are symbolic values"""

    def __init__(self):
        self.ints, self.reals, self.flags = {}, {}, {}
        self.base = []

    def choice(self, name, n, fixed=None):
        if name not in self.ints:
            v = z3.Int("ch_" + name)
            declare_bounds(v, 0, n - 1)
            self.ints[name] = (v, n)
            ENG.assume(z3.And(v >= 0, v <= n - 1))
            if fixed is not None:
                ENG.assume(v == fixed)
        v, n = self.ints[name]
        return ENG.concretize(v, 0, n - 1)

    def real(self, name, lo=0, hi=1):
        if name not in self.reals:
            v = z3.Real("re_" + name)
            self.reals[name] = v
            ENG.assume(z3.And(v >= lo, v <= hi))
        return SNum(self.reals[name], None)

    def flag(self, name):
        if name not in self.flags:
            self.flags[name] = z3.Bool("fl_" + name)
        return SBool(self.flags[name])

    def decode(self, m):
        return {"ints": {k: jsonable(v, m) for k, (v, n) in self.ints.items()}, "reals": {k: jsonable(v, m) for k, v in self.reals.items()},
                "flags": {k: bool(jsonable(v, m)) for k, v in self.flags.items()}}


class RealChooser:
    def __init__(self, d):
        self.d = d

    def choice(self, name, n, fixed=None):
        return self.d["ints"].get(name, 0)

    def real(self, name, lo=0, hi=1):
        return fl(self.d["reals"].get(name, 0.5))

    def flag(self, name):
        return bool(self.d["flags"].get(name, False))


def build(ns, ch, what, case):
    """construct the object under test from the namespace `ns` (twin or real panoptica modules) and the chooser"""
    Metric, InputType = ns.Metric, ns.InputType
    metrics3 = [Metric.IOU, Metric.DSC, Metric.ASSD]

    def naive(pfx):
        return ns.NaiveThresholdMatching(matching_metric=metrics3[ch.choice(pfx + "metric", 3)], matching_threshold=ch.real(pfx + "thr"), allow_many_to_one=ch.flag(pfx + "many"))

    def merge(pfx):
        return ns.MaximizeMergeMatching(matching_metric=metrics3[ch.choice(pfx + "metric", 3)], matching_threshold=ch.real(pfx + "thr"))

    def cca(pfx):
        return ns.ConnectedComponentsInstanceApproximator(cca_backend=[None, ns.CCABackend.cc3d, ns.CCABackend.scipy][ch.choice(pfx + "backend", 3)])

    def zerotp(pfx):
        R = ns.EdgeCaseResult
        members = [R.INF, R.NAN, R.ZERO, R.ONE, R.NONE]
        return ns.MetricZeroTPEdgeCaseHandling(no_instances_result=members[ch.choice(pfx + "noinst", 5)], default_result=members[ch.choice(pfx + "default", 5)],
                                               empty_prediction_result=[None, R.ONE][ch.choice(pfx + "emptypred", 2)])

    def handler(pfx):
        R = ns.EdgeCaseResult
        members = [R.INF, R.NAN, R.ZERO, R.ONE, R.NONE]
        return ns.EdgeCaseHandler(listmetric_zeroTP_handling={Metric.DSC: zerotp(pfx + "dsc_"), Metric.IOU: ns.MetricZeroTPEdgeCaseHandling(default_result=R.ZERO)},
                                  empty_list_std=members[ch.choice(pfx + "std", 5)])

    def groups(pfx):
        # group names: ordinary user names, or user names that look like the auto-generated ones of list-declared groups (other order / suffix)
        n1, n2, n3 = [("organ", "Lesion", "single"), ("group_1", "group_0", "group_tumor")][ch.choice(pfx + "names", 2)]
        return ns.SegmentationClassGroups({n1: ns.LabelGroup([1, 2]), n2: ns.LabelMergeGroup([3, 4]), n3: ns.LabelGroup(5, single_instance=True)})
    if what == "naive":
        return naive("m_")
    if what == "merge":
        return merge("m_")
    if what == "cca":
        return cca("a_")
    if what == "zerotp":
        return zerotp("z_")
    if what == "handler":
        return handler("h_")
    if what == "labelgroup":
        return ns.LabelGroup([[1], [1, 2], [7, 3, 5]][ch.choice("labels", 3)], single_instance=False) if ch.choice("single", 2) == 0 else ns.LabelGroup(4, single_instance=True)
    if what == "mergegroup":
        return ns.LabelMergeGroup([[1, 2], [3]][ch.choice("labels", 2)])
    if what == "classgroups":
        return groups("g_")
    if what == "enums":
        return [Metric.DSC, Metric.ASSD, InputType.SEMANTIC, InputType.MATCHED_INSTANCE, ns.CCABackend.scipy, ns.EdgeCaseResult.NAN, ns.EdgeCaseResult.NONE][ch.choice("enum", 7)]
    # evaluator
    it = [InputType.SEMANTIC, InputType.UNMATCHED_INSTANCE, InputType.MATCHED_INSTANCE][case["it"]]
    mk = case["mk"]
    kw = {"expected_input": it}
    ac = ch.choice("approx", 3)
    kw["instance_approximator"] = None if ac == 0 else ns.ConnectedComponentsInstanceApproximator(cca_backend=[None, ns.CCABackend.cc3d][ac - 1])
    kw["instance_matcher"] = None if mk == 0 else (naive("m_") if mk == 1 else merge("m_"))
    dm = ch.choice("decision", 3)
    if dm:
        kw["decision_metric"] = [None, Metric.IOU, Metric.DSC][dm]
        kw["decision_threshold"] = ch.real("dthr")
    ic = ch.choice("inst_metrics", len(IM_CHOICES))
    if IM_CHOICES[ic] is not None:
        kw["instance_metrics"] = [getattr(Metric, m) for m in IM_CHOICES[ic]]
    kw["global_metrics"] = [getattr(Metric, m) for m in GM_CHOICES[ch.choice("glob_metrics", len(GM_CHOICES))]]
    kw["save_group_times"], kw["log_times"], kw["verbose"] = ch.flag("save_group_times"), ch.flag("log_times"), ch.flag("verbose")
    if ch.choice("groups", 2):
        kw["segmentation_class_groups"] = groups("g_")
    hc = ch.choice("handler", 3)
    if hc == 2:
        # the default per-metric table, only the empty-list value differs from the default
        kw["edge_case_handler"] = ns.EdgeCaseHandler(empty_list_std=ns.EdgeCaseResult.ZERO)
    elif hc == 1:
        R = ns.EdgeCaseResult
        kw["edge_case_handler"] = ns.EdgeCaseHandler(listmetric_zeroTP_handling={Metric.DSC: ns.MetricZeroTPEdgeCaseHandling(no_instances_result=R.ONE, default_result=R.NONE),
                                                                                 Metric.IOU: ns.MetricZeroTPEdgeCaseHandling(default_result=R.ZERO, normal=R.INF)}, empty_list_std=R.ZERO)
    return ns.Panoptica_Evaluator(**kw)


class NS:
    pass


def twin_namespace(T):
    ns = NS()
    P = T.panoptica
    for n in ("Metric", "InputType", "NaiveThresholdMatching", "ConnectedComponentsInstanceApproximator", "CCABackend", "Panoptica_Evaluator"):
        setattr(ns, n, getattr(P, n))
    LGm = T.mod("panoptica.utils.label_group")
    ns.LabelGroup, ns.LabelMergeGroup = LGm.LabelGroup, LGm.LabelMergeGroup
    ns.SegmentationClassGroups = T.mod("panoptica.utils.segmentation_class").SegmentationClassGroups
    ns.MaximizeMergeMatching = T.mod("panoptica.instance_matcher").MaximizeMergeMatching
    EH = T.mod("panoptica.utils.edge_case_handling")
    ns.EdgeCaseHandler, ns.EdgeCaseResult, ns.MetricZeroTPEdgeCaseHandling = EH.EdgeCaseHandler, EH.EdgeCaseResult, EH.MetricZeroTPEdgeCaseHandling
    return ns


def state_same(x, y, path="", depth=0):
    """deep comparison of two object graphs: same classes, same private state; returns (list of z3 equalities, None) or (None, reason)"""
    import enum
    if depth > 12:
        return [], None
    if isinstance(x, Sym) or isinstance(y, Sym):
        try:
            e = (x == y)
        except Exception:
            return None, "%s: %r vs %r" % (path, x, y)
        if isinstance(e, SBool):
            return [e.t], None
        return ([], None) if e else (None, "%s: %r vs %r" % (path, x, y))
    if type(x) is not type(y):
        return None, "%s: class %s vs %s" % (path, type(x).__name__, type(y).__name__)
    if isinstance(x, enum.Enum):
        return ([], None) if x.name == y.name else (None, "%s: %s vs %s" % (path, x.name, y.name))
    if x is None or isinstance(x, (bool, int, str)):
        return ([], None) if x == y else (None, "%s: %r vs %r" % (path, x, y))
    if isinstance(x, float):
        return ([], None) if (x == y or (x != x and y != y)) else (None, "%s: %r vs %r" % (path, x, y))
    if isinstance(x, (list, tuple)):
        if len(x) != len(y):
            return None, "%s: length %d vs %d" % (path, len(x), len(y))
        out = []
        for i, (a, b) in enumerate(zip(x, y)):
            r, why = state_same(a, b, "%s[%d]" % (path, i), depth + 1)
            if r is None:
                return None, why
            out += r
        return out, None
    if isinstance(x, dict):
        kx, ky = sorted(x, key=str), sorted(y, key=str)
        if [str(k) for k in kx] != [str(k) for k in ky]:
            return None, "%s: keys %s vs %s" % (path, [str(k) for k in kx], [str(k) for k in ky])
        out = []
        for a, b in zip(kx, ky):
            r, why = state_same(x[a], y[b], "%s[%s]" % (path, a), depth + 1)
            if r is None:
                return None, why
            out += r
        return out, None
    if hasattr(x, "__dict__"):
        import types as _t
        # _default_result only feeds the constructor's fill-in of unspecified scenarios; it is not a setting of the object
        skip = lambda k, v: isinstance(v, (_t.FunctionType, _t.MethodType, _t.BuiltinFunctionType)) or k in ("_default_result", "_SegmentationClassGroups__labels")   # (the flat label list is derived from the group dictionary; YAML sorts mapping keys)
        return state_same({k: v for k, v in vars(x).items() if not skip(k, v)}, {k: v for k, v in vars(y).items() if not skip(k, v)}, path + "." + type(x).__name__, depth + 1)
    return ([], None) if x == y else (None, "%s: %r vs %r" % (path, x, y))


def run_case(case):
    from ..twin import Twin
    fs = fsmodel.FS()
    mods, fopen = fsmodel.make_modules(fs)
    mods.update(yamlmodel.make_module(fs))
    T = Twin(fakes=mods, extra_builtins={"open": fopen})
    ns = twin_namespace(T)
    what = case["what"]
    holder = {}

    def decode(m):
        d = holder["ch"].decode(m)
        d.update({"what": what, "it": case.get("it"), "mk": case.get("mk")})
        return d
    h = H(PROP, case["name"], decode, replay_kind="roundtrip", max_witnesses=30)

    def body_used():
        """semantic evaluator, default back end, evaluated on a 3-D or a 2-D input (solver's choice) before it is saved"""
        from ..symnp import SArr
        fs.__init__()
        fs.dirs.add("/cfg")
        ch = Chooser()
        holder["ch"] = ch

        def mk():
            return ns.Panoptica_Evaluator(expected_input=ns.InputType.SEMANTIC, instance_approximator=ns.ConnectedComponentsInstanceApproximator(), instance_matcher=ns.NaiveThresholdMatching())
        three_d = ch.choice("used_on_3d", 2)
        x, fresh = mk(), mk()
        try:
            shp = (1, 2, 2) if three_d else (2, 2)
            x.evaluate(SArr([1, 0, 0, 1], "uint8", shp), SArr([1, 0, 0, 1], "uint8", shp), verbose=False)
            x.save_to_config("/cfg/used.yaml")
            fresh.save_to_config("/cfg/fresh.yaml")
            y = type(x).load_from_config("/cfg/used.yaml")
        except EngineSignal:
            raise
        except Exception as e:
            h.fail("save_and_load_complete", detail="%s: %s" % (type(e).__name__, str(e)[:160]))
            return
        ne = yamlmodel.node_equal(fs.files["/cfg/used.yaml"][0], fs.files["/cfg/fresh.yaml"][0])
        h.ok("use_does_not_change_the_saved_configuration", False if ne is False else z3.And(ne + [z3.BoolVal(True)]), detail={"used_on_3d": bool(three_d)})
        eqs, why = state_same(fresh, y)
        h.ok("loaded_object_has_identical_settings", False if eqs is None else z3.And(eqs + [z3.BoolVal(True)]), detail=why)
        h.note_nontrivial(("used", three_d))
        h.note_nontrivial("used_then_saved")
        h.witness(expect=None)

    def body():
        fs.__init__()
        fs.dirs.add("/cfg")
        ch = Chooser()
        holder["ch"] = ch
        try:
            x = build(ns, ch, what, case)
        except EngineSignal:
            raise
        except AssertionError:
            return      # an invalid constructor argument combination is not a configuration
        h.note_nontrivial(str(sorted((k, ENG.concretize(v, 0, n - 1)) for k, (v, n) in ch.ints.items())))
        try:
            x.save_to_config("/cfg/a.yaml")
            y = type(x).load_from_config("/cfg/a.yaml")
            y.save_to_config("/cfg/b.yaml")
        except EngineSignal:
            raise
        except Exception as e:
            h.fail("save_and_load_complete", detail="%s: %s" % (type(e).__name__, str(e)[:160]))
            return
        eqs, why = state_same(x, y)
        h.ok("loaded_object_has_identical_settings", False if eqs is None else z3.And(eqs + [z3.BoolVal(True)]), detail=why)
        ne = yamlmodel.node_equal(fs.files["/cfg/a.yaml"][0], fs.files["/cfg/b.yaml"][0])
        h.ok("resaving_reproduces_the_file", False if ne is False else z3.And(ne + [z3.BoolVal(True)]))
        h.witness(expect=None)
    def body_byname():
        fs.__init__()
        ch = Chooser()
        holder["ch"] = ch
        # pristine package per path (a name-keyed cache of one path must not leak into the next one)
        T2 = Twin(fakes=mods, extra_builtins={"open": fopen})
        ns2 = twin_namespace(T2)
        FPm = T2.mod("panoptica.utils.filepath")
        FakePath = mods["pathlib"].Path

        def search_path(directory, query, *a, **k):
            name_ = str(query).split("/")[-1]
            return [FakePath(p_) for p_ in sorted(fs.files) if p_.endswith("/" + name_) and p_.startswith(str(directory))]
        FPm.search_path = search_path
        t1, t2 = ch.real("thr_first"), ch.real("thr_second")
        name = BYNAME + (".yaml" if ch.choice("name_given_with_suffix", 2) else "")
        cls = ns2.NaiveThresholdMatching
        try:
            a, b = cls(matching_threshold=t1), cls(matching_threshold=t2)
            a.save_to_config_by_name(name)
            la = cls.load_from_config_name(name)
            b.save_to_config_by_name(name)
            lb = cls.load_from_config_name(name)
        except EngineSignal:
            raise
        except Exception as e:
            h.fail("save_and_load_complete", detail="%s: %s" % (type(e).__name__, str(e)[:160]))
            return
        for tag, x_, y_ in (("first", a, la), ("second", b, lb)):
            eqs, why = state_same(x_, y_)
            h.ok("loaded_object_has_identical_settings", False if eqs is None else z3.And(eqs + [z3.BoolVal(True)]), detail={"which": tag, "why": why})
        h.note_nontrivial(name)
        h.note_nontrivial("byname")
        h.witness(expect=None)
    return explore_case(h, {"used": body_used, "byname": body_byname}.get(what, body), concretize_div=64, time_budget=3000)


# ================================================================================================ real-package side
def real_namespace():
    import panoptica
    from panoptica.instance_matcher import MaximizeMergeMatching
    from panoptica.utils.edge_case_handling import EdgeCaseHandler, EdgeCaseResult, MetricZeroTPEdgeCaseHandling
    from panoptica.utils.label_group import LabelGroup, LabelMergeGroup
    from panoptica.utils.segmentation_class import SegmentationClassGroups
    ns = NS()
    for n in ("Metric", "InputType", "NaiveThresholdMatching", "ConnectedComponentsInstanceApproximator", "CCABackend", "Panoptica_Evaluator"):
        setattr(ns, n, getattr(panoptica, n))
    ns.MaximizeMergeMatching, ns.EdgeCaseHandler, ns.EdgeCaseResult, ns.MetricZeroTPEdgeCaseHandling = MaximizeMergeMatching, EdgeCaseHandler, EdgeCaseResult, MetricZeroTPEdgeCaseHandling
    ns.LabelGroup, ns.LabelMergeGroup, ns.SegmentationClassGroups = LabelGroup, LabelMergeGroup, SegmentationClassGroups
    return ns


def real_roundtrip(case, mode, expect):
    import os
    import shutil
    import tempfile
    import numpy as np
    ns = real_namespace()
    what = case["what"]
    if what == "used":
        return _real_used(ns, case)
    if what == "byname":
        return _real_byname(ns, case)
    try:
        x = build(ns, RealChooser(case), what, case)
    except AssertionError:
        return {"match": True, "violates": False, "reason": None, "observed": "invalid configuration"}
    tmp = tempfile.mkdtemp(prefix="pv_c19_")
    bad = None
    try:
        a, b = os.path.join(tmp, "a.yaml"), os.path.join(tmp, "b.yaml")
        try:
            x.save_to_config(a)
            y = type(x).load_from_config(a)
            y.save_to_config(b)
        except Exception as e:
            return {"match": True, "violates": True, "reason": "save_and_load_complete: %s: %s" % (type(e).__name__, str(e)[:200]), "observed": None}
        eqs, why = state_same(x, y)
        if eqs is None:
            bad = "loaded_object_has_identical_settings: " + why
        elif open(a).read() != open(b).read():
            bad = "resaving_reproduces_the_file: the re-saved file differs"
        elif what == "evaluator":
            # probe input on which the options matter; both evaluators must agree (or fail alike)
            from . import realcommon as RC
            RC.use_serial_pool(True)
            pr = np.zeros((8, 8), dtype=np.uint8)
            rf = np.zeros((8, 8), dtype=np.uint8)
            rf[1:4, 1:4] = 1
            pr[1:4, 2:5] = 1
            rf[5:7, 5:7] = 3
            pr[5:7, 5:6] = 3
            pr[5:7, 6:7] = 4
            outs = []
            for ev in (x, y):
                try:
                    r = ev.evaluate(pr.copy(), rf.copy(), verbose=False)
                    outs.append({g: (v[0].tp, v[0].fp, v[0].fn) for g, v in r.items()})
                except Exception as e:
                    outs.append("%s" % type(e).__name__)
            if outs[0] != outs[1]:
                bad = "loaded_object_has_identical_settings: probe evaluation differs: %s vs %s" % (outs[0], outs[1])
            # shipped configurations load
            if bad is None:
                import glob
                import panoptica
                for f in sorted(glob.glob(os.path.join(os.path.dirname(panoptica.__file__), "configs", "panoptica_evaluator_*.yaml"))):
                    try:
                        ns.Panoptica_Evaluator.load_from_config(f)
                    except Exception as e:
                        bad = "shipped_configuration_loads: %s: %s" % (os.path.basename(f), e)
    finally:
        shutil.rmtree(tmp, ignore_errors=True)
    return {"match": True, "violates": bad is not None, "reason": bad, "observed": None}


def _real_used(ns, case):
    import os
    import shutil
    import tempfile
    import numpy as np
    from . import realcommon as RC
    RC.use_serial_pool(True)

    def mk():
        return ns.Panoptica_Evaluator(expected_input=ns.InputType.SEMANTIC, instance_approximator=ns.ConnectedComponentsInstanceApproximator(), instance_matcher=ns.NaiveThresholdMatching())
    tmp = tempfile.mkdtemp(prefix="pv_c19u_")
    try:
        x, fresh = mk(), mk()
        a = np.array([1, 0, 0, 1], dtype=np.uint8).reshape((1, 2, 2) if case["ints"].get("used_on_3d") else (2, 2))
        x.evaluate(a.copy(), a.copy(), verbose=False)
        pu, pf = os.path.join(tmp, "used.yaml"), os.path.join(tmp, "fresh.yaml")
        x.save_to_config(pu)
        fresh.save_to_config(pf)
        bad = None
        if open(pu).read() != open(pf).read():
            bad = "use_does_not_change_the_saved_configuration: after one evaluation the evaluator saves\n%s\ninstead of\n%s" % (open(pu).read()[:300], open(pf).read()[:300])
        return {"match": True, "violates": bad is not None, "reason": bad, "observed": None}
    finally:
        shutil.rmtree(tmp, ignore_errors=True)


def _real_byname(ns, case):
    import os
    from panoptica.utils.filepath import config_dir_by_name
    ch = RealChooser(case)
    t1, t2 = ch.real("thr_first"), ch.real("thr_second")
    name = BYNAME + (".yaml" if ch.choice("name_given_with_suffix", 2) else "")
    cls = ns.NaiveThresholdMatching
    d, fname = config_dir_by_name(name)
    target = os.path.join(str(d), fname)          # the by-name API writes into the package directory: removed again below
    bad = None
    try:
        a, b = cls(matching_threshold=t1), cls(matching_threshold=t2)
        a.save_to_config_by_name(name)
        la = cls.load_from_config_name(name)
        b.save_to_config_by_name(name)
        lb = cls.load_from_config_name(name)
        for tag, x_, y_ in (("first", a, la), ("second", b, lb)):
            if x_._matching_threshold != y_._matching_threshold:
                bad = "loaded_object_has_identical_settings: after save(%r) load save(%r) load under the name %r the %s load returns matching_threshold %r" % (
                    t1, t2, name, tag, y_._matching_threshold)
    except Exception as e:
        bad = "save_and_load_complete: %s: %s" % (type(e).__name__, str(e)[:160])
    finally:
        try:
            os.remove(target)
        except OSError:
            pass
    return {"match": True, "violates": bad is not None, "reason": bad, "observed": None}


REAL = {"roundtrip": real_roundtrip}
