"""C20 - dataset summaries are the statistics of exactly the recorded finite values (layer C, DESIGN 4/C20).

Symbolically executed (twin): ValueSummary.__init__, Panoptica_Statistic.__init__/get/get_one_subject/get_summary/
get_summary_across_groups/get_summary_dict/get_across_groups.
"""
from __future__ import annotations

import itertools

import z3

from ..sym import ENG, SNum, SBool, EngineSignal
from ..run import H, explore_case, jsonable
from .common import fl, close

PROP = "C20"
META = {
    "bounds": {"quick": "tables of 3 subjects x 2 groups x 1 metric and 2 subjects x 2 groups x 2 metrics; every cell a free real or missing (all 2^cells presence patterns); a swap and a rotation of the 3 subjects, the swap of the 2 subjects",
               "thorough": "3 x 2 x 1 (every subject order), 2 x 2 x 2, and 4 subjects x 2 groups x 1 metric under three subject orders (a swap, the reversal, a rotation)"},
    "stubs": ["np.std := trusted; fresh non-negative real per (multiset of arguments, ddof) with an obligation on the arguments (exactly the present values, ddof=0)"],
    "assumptions": ["float summation order is not modelled (exact reals)", "tables larger than the bound are outside the claim"],
    "nontrivial_rule": "presence patterns with at least one missing and one present cell in some column",
}


def cases(tier):
    # (4x2x1 with all 23 orders and 3x2x2 were planned for the thorough tier: ~45 minutes without finishing; reduced as below)
    dims = [(3, 2, 1), (2, 2, 2)] if tier == "quick" else [(3, 2, 1), (2, 2, 2), (4, 2, 1)]
    out = [{"name": "from_file_2x1x2", "what": "from_file", "S": 2, "kinds": True}]
    for S, G, M in dims:
        for pi, perm in enumerate(itertools.permutations(range(S))):
            if perm == tuple(range(S)):
                continue
            if tier == "quick" and S == 3 and perm not in ((1, 0, 2), (2, 0, 1)):
                continue
            if S == 4 and perm not in ((1, 0, 2, 3), (3, 2, 1, 0), (1, 2, 3, 0)):
                continue
            # split the 2^cells presence patterns over several worker processes by fixing three cells
            for bits in itertools.product((False, True), repeat=3):
                out.append({"name": "t%dx%dx%d_perm%d_%s" % (S, G, M, pi, "".join("1" if b else "0" for b in bits)), "S": S, "G": G, "M": M, "perm": list(perm), "fix": list(bits)})
    return out


def _run_from_file(case):
    """the statistics object built by the loader from a recorded table: only finite recorded values enter the summaries"""
    from ..twin import Twin
    from .. import fsmodel
    fs = fsmodel.FS()
    mods, fopen = fsmodel.make_modules(fs)
    T = Twin(fakes=mods, extra_builtins={"open": fopen})
    PS = T.mod("panoptica.panoptica_statistics")
    S = case["S"]
    subj = ["s10", "s9", "s2"][:S]
    mets = ["m0", "m1"]
    KINDS = ["finite", "nan", "inf", "missing"]
    val = {(s, m): z3.Real("v_%d_%d" % (s, m)) for s in range(S) for m in range(2)}
    kind = {(s, m): z3.Int("k_%d_%d" % (s, m)) for s in range(S) for m in range(2)}
    base = [z3.And(k >= 0, k <= 3) for k in kind.values()]

    def decode(mo):
        return {"what": "from_file", "subjects": subj, "metrics": mets,
                "cells": {"%d,%d" % k: {"kind": KINDS[jsonable(kind[k], mo)], "value": jsonable(val[k], mo)} for k in val}}
    h = H(PROP, case["name"], decode, replay_kind="from_file", max_witnesses=20)

    def body():
        fs.__init__()
        cell = {}
        for k in val:
            kd = KINDS[ENG.concretize(kind[k], 0, 3)]
            cell[k] = ({"finite": SNum(val[k], "float64"), "nan": float("nan"), "inf": float("inf"), "missing": None}[kd], kd)
        rows = [["subject_name"] + ["g-%s" % m for m in mets]]
        for s in range(S):
            rows.append([subj[s]] + [fsmodel.to_text(cell[(s, m)][0]) for m in range(2)])
        fs.files["/d/t.tsv"] = rows
        try:
            st = PS.Panoptica_Statistic.from_file("/d/t.tsv")
        except EngineSignal:
            raise
        except Exception as e:
            h.fail("table_loads", detail="%s: %s" % (type(e).__name__, str(e)[:120]))
            return
        for m in range(2):
            present = [cell[(s, m)][0] for s in range(S) if cell[(s, m)][1] == "finite"]
            try:
                got = st.get("g", mets[m], remove_nones=True)
            except EngineSignal:
                raise
            except Exception as e:
                h.fail("values_available", detail="%s: %s" % (type(e).__name__, str(e)[:120]))
                continue
            h.ok("exactly_the_finite_recorded_values_enter", len(got) == len(present) and z3.And([SNum(a).t == b.t for a, b in zip(got, present)] + [z3.BoolVal(True)]),
                 detail={"metric": mets[m], "loaded": len(got), "finite": len(present)})
            if present:
                sm = st.get_summary("g", mets[m])
                pv = [x.t for x in present]
                a = sm.avg
                if isinstance(a, float) and (a != a or a in (float("inf"), float("-inf"))):
                    # a non-finite summary although only finite values may enter it
                    h.fail("avg_is_mean_of_present_values", detail={"metric": mets[m], "avg": repr(a), "finite_values": len(pv)})
                    continue
                h.ok("avg_is_mean_of_present_values", (a.t if isinstance(a, SNum) else z3.RealVal(a)) * len(pv) == z3.Sum(pv))
        h.note_nontrivial(tuple(k for (_, k) in cell.values()))
        h.witness(expect=None)
    return explore_case(h, body, base=base, time_budget=3000)


def run_case(case):
    if case.get("what") == "from_file":
        return _run_from_file(case)
    from ..twin import get_twin
    T = get_twin()
    PS = T.mod("panoptica.panoptica_statistics")
    S, G, M, perm = case["S"], case["G"], case["M"], case["perm"]
    subj = ["s10", "s9", "s2", "s1"][:S]          # deliberately not in lexicographic order
    groups = ["g%d" % g for g in range(G)]
    mets = ["m%d" % m for m in range(M)]
    val = {(s, g, m): z3.Real("v_%d_%d_%d" % (s, g, m)) for s in range(S) for g in range(G) for m in range(M)}
    pres = {(s, g, m): z3.Bool("p_%d_%d_%d" % (s, g, m)) for s in range(S) for g in range(G) for m in range(M)}

    def decode(mo):
        return {"subjects": subj, "groups": groups, "metrics": mets, "perm": perm, "pooled": bool(jsonable(z3.Bool("pooled_query_first"), mo)),
                "cells": {"%d,%d,%d" % k: (jsonable(val[k], mo) if jsonable(pres[k], mo) else None) for k in val}}
    h = H(PROP, case["name"], decode, replay_kind="table", max_witnesses=10)

    def build(order):
        cell = {}
        for k in val:
            cell[k] = SNum(val[k], None) if SBool(pres[k]) else None
        vd = {groups[g]: {mets[m]: [cell[(s, g, m)] for s in order] for m in range(M)} for g in range(G)}
        return PS.Panoptica_Statistic([subj[s] for s in order], vd), cell

    def zz(x):
        if isinstance(x, SNum):
            return z3.ToReal(x.t) if x.t.sort() == z3.IntSort() else x.t
        return z3.RealVal(x)

    def body():
        try:
            st, cell = build(list(range(S)))
            st2, _ = build(perm)
            if bool(SBool(z3.Bool("pooled_query_first"))):
                # read-only queries made before the summaries are asked for
                for mm in mets:
                    st.get_across_groups(mm)
                st.get_one_subject(subj[0])
        except EngineSignal:
            raise
        except Exception as e:
            h.fail("constructs", detail="%s: %s" % (type(e).__name__, str(e)[:120]))
            return
        stds = lambda: ENG.path_cache.get("std", {})
        col_avgs = {}
        any_mixed = False
        for g in range(G):
            for m in range(M):
                present = [cell[(s, g, m)] for s in range(S) if cell[(s, g, m)] is not None]
                if 0 < len(present) < S:
                    any_mixed = True
                if not present:
                    continue
                try:
                    sm = st.get_summary(groups[g], mets[m])
                    sm2 = st2.get_summary(groups[g], mets[m])
                except EngineSignal:
                    raise
                except Exception as e:
                    h.fail("summary_defined_with_a_finite_value", detail="%s: %s" % (type(e).__name__, str(e)[:120]))
                    continue
                pv = [zz(x) for x in present]
                n = len(pv)
                h.ok("avg_is_mean_of_present_values", zz(sm.avg) * n == z3.Sum(pv))
                h.ok("min_attained_and_bounds", z3.And(z3.Or([zz(sm.min) == x for x in pv]), z3.And([zz(sm.min) <= x for x in pv])))
                h.ok("max_attained_and_bounds", z3.And(z3.Or([zz(sm.max) == x for x in pv]), z3.And([zz(sm.max) >= x for x in pv])))
                rec = stds().get(str(sm.std.t)) if isinstance(sm.std, SNum) else None
                if n == 1 and not isinstance(sm.std, SNum):
                    h.ok("std_is_population_std_of_present_values", float(sm.std) == 0.0)
                elif rec is None:
                    h.ok("std_is_population_std_of_present_values", False, detail={"std": repr(sm.std)})
                else:
                    args, ddof = rec
                    # same multiset: every present value occurs as often among the arguments (checked via sums of powers is overkill; sizes <= 4: match greedily by solver)
                    ok = ddof == 0 and len(args) == n
                    h.ok("std_is_population_std_of_present_values", ok and z3.And([z3.Sum([z3.If(a == x, 1, 0) for a in args]) == z3.Sum([z3.If(y == x, 1, 0) for y in pv]) for x in pv]), detail={"ddof": ddof})
                h.ok("order_of_subjects_irrelevant", z3.And(zz(sm.avg) == zz(sm2.avg), zz(sm.min) == zz(sm2.min), zz(sm.max) == zz(sm2.max),
                                                          (zz(sm.std) == zz(sm2.std)) if isinstance(sm.std, SNum) and isinstance(sm2.std, SNum) else z3.BoolVal(sm.std == sm2.std)))
                h.ok("values_are_the_present_ones", len(sm.values) == n)
                col_avgs[(g, m)] = zz(sm.avg)
        if any_mixed:
            h.note_nontrivial(tuple(sorted((k, cell[k] is not None) for k in cell)))
        # per-subject lookup (both orders)
        for stt, order in ((st, list(range(S))), (st2, perm)):
            for s in range(S):
                try:
                    d = stt.get_one_subject(subj[s])
                except EngineSignal:
                    raise
                except Exception as e:
                    h.fail("per_subject_lookup", detail="%s" % e)
                    continue
                for g in range(G):
                    for m in range(M):
                        got, want = d[groups[g]][mets[m]], cell[(s, g, m)]
                        h.ok("per_subject_lookup", (got is None and want is None) or (got is not None and want is not None and zz(got) == zz(want)), detail={"subject": subj[s]})
        # across groups: statistics of the per-group averages (only when every group has a present value for the metric)
        for m in range(M):
            # the statement covers tables in which every group/metric column has a finite value
            if all((g, mm) in col_avgs for g in range(G) for mm in range(M)):
                try:
                    ag = st.get_summary_across_groups()[mets[m]]
                except EngineSignal:
                    raise
                except Exception as e:
                    h.fail("across_groups_defined", detail="%s: %s" % (type(e).__name__, str(e)[:100]))
                    continue
                av = [col_avgs[(g, m)] for g in range(G)]
                h.ok("across_groups_avg", zz(ag.avg) * G == z3.Sum(av))
                h.ok("across_groups_min_max", z3.And(z3.Or([zz(ag.min) == x for x in av]), z3.And([zz(ag.min) <= x for x in av]), z3.Or([zz(ag.max) == x for x in av]), z3.And([zz(ag.max) >= x for x in av])))
        h.witness(expect=None)
    keys = sorted(pres)
    base = [pres[k] == b for k, b in zip(keys, case.get("fix", []))]
    return explore_case(h, body, logic="QF_LRA", base=base, time_budget=3000)


# ================================================================================================ real-package side
def real_table(case, mode, expect):
    import math
    from panoptica.panoptica_statistics import Panoptica_Statistic
    subj, groups, mets, perm = case["subjects"], case["groups"], case["metrics"], case["perm"]
    S = len(subj)
    cell = {tuple(int(x) for x in k.split(",")): (None if v is None else fl(v)) for k, v in case["cells"].items()}
    bad = None

    def build(order):
        vd = {g: {m: [cell[(s, gi, mi)] for s in order] for mi, m in enumerate(mets)} for gi, g in enumerate(groups)}
        return Panoptica_Statistic([subj[s] for s in order], vd)
    try:
        st, st2 = build(list(range(S))), build(perm)
        if case.get("pooled"):
            for m in mets:
                st.get_across_groups(m)
            st.get_one_subject(subj[0])
        for gi, g in enumerate(groups):
            for mi, m in enumerate(mets):
                pv = [cell[(s, gi, mi)] for s in range(S) if cell[(s, gi, mi)] is not None]
                if not pv:
                    continue
                sm, sm2 = st.get_summary(g, m), st2.get_summary(g, m)
                mean = sum(pv) / len(pv)
                sd = math.sqrt(sum((x - mean) ** 2 for x in pv) / len(pv))
                if not close(sm.avg, mean) or not close(sm.std, sd, 1e-7) or sm.min != min(pv) or sm.max != max(pv):
                    bad = "avg_is_mean_of_present_values: %s/%s summary (%r,%r,%r,%r) vs values %s" % (g, m, sm.avg, sm.std, sm.min, sm.max, pv)
                if not (close(sm.avg, sm2.avg) and close(sm.std, sm2.std, 1e-7) and sm.min == sm2.min and sm.max == sm2.max):
                    bad = "order_of_subjects_irrelevant: %s/%s" % (g, m)
        # across groups: statistics of the per-group averages (tables in which every group/metric column has a value)
        cols = {(gi, mi): [cell[(s, gi, mi)] for s in range(S) if cell[(s, gi, mi)] is not None] for gi in range(len(groups)) for mi in range(len(mets))}
        if all(cols.values()):
            for stt in (st, st2):
                ag = stt.get_summary_across_groups()
                for mi, m in enumerate(mets):
                    avs = [sum(cols[(gi, mi)]) / len(cols[(gi, mi)]) for gi in range(len(groups))]
                    if not close(ag[m].avg, sum(avs) / len(avs)) or not close(ag[m].min, min(avs)) or not close(ag[m].max, max(avs)):
                        bad = "across_groups_avg: metric %s: summary across groups (avg %r, min %r, max %r) vs per-group averages %s" % (m, ag[m].avg, ag[m].min, ag[m].max, avs)
        for stt in (st, st2):
            for s in range(S):
                d = stt.get_one_subject(subj[s])
                for gi, g in enumerate(groups):
                    for mi, m in enumerate(mets):
                        if d[g][m] != cell[(s, gi, mi)]:
                            bad = "per_subject_lookup: subject %s %s/%s -> %r, recorded %r" % (subj[s], g, m, d[g][m], cell[(s, gi, mi)])
    except Exception as e:
        bad = "summary_defined_with_a_finite_value: %s: %s" % (type(e).__name__, e)
    if bad is None and mode == "violation" and "std" in str((expect or {}).get("obligation")):
        # the symbolic run found the reported std not to be the documented population std as a TERM; on these (small) values floating
        # point hides the difference, so a table with the same missing cells is tried whose values are distinct and shifted by 2^27 (another table the statement covers)
        from fractions import Fraction
        shift = float(2 ** 27)
        cell2 = {k: (None if v is None else v + shift + (3 * k[0] + 2 * k[1] + k[2] + 1) / 10) for k, v in cell.items()}     # and made distinct
        try:
            st3 = Panoptica_Statistic(list(subj), {g: {m: [cell2[(s_, gi, mi)] for s_ in range(S)] for mi, m in enumerate(mets)} for gi, g in enumerate(groups)})
            for gi, g in enumerate(groups):
                for mi, m in enumerate(mets):
                    pv = [Fraction(cell2[(s_, gi, mi)]) for s_ in range(S) if cell2[(s_, gi, mi)] is not None]
                    if len(pv) < 2:
                        continue
                    mean = sum(pv) / len(pv)
                    sd = math.sqrt(sum((x - mean) ** 2 for x in pv) / len(pv))
                    got = st3.get_summary(g, m).std
                    if not close(got, sd, 1e-6):
                        bad = "std_is_population_std_of_present_values: %s/%s std %r, population std of %s is %r" % (g, m, got, [float(x) for x in pv], sd)
        except Exception as e:
            bad = "summary_defined_with_a_finite_value: %s: %s" % (type(e).__name__, e)
    return {"match": True, "violates": bad is not None, "reason": bad, "observed": None}


def real_from_file(case, mode, expect):
    import math
    import os
    import shutil
    import tempfile
    from panoptica.panoptica_statistics import Panoptica_Statistic
    subj, mets = case["subjects"], case["metrics"]
    bad = None
    for scale in (None, 1e-5, 1e17, 1 / 3):
        def value(c):
            if c["kind"] == "finite":
                v = fl(c["value"])
                return (v if v != 0 else 0.5) * scale if scale else v
            return {"nan": float("nan"), "inf": float("inf"), "missing": None}[c["kind"]]
        tmp = tempfile.mkdtemp(prefix="pv_c20_")
        try:
            path = os.path.join(tmp, "t.tsv")
            with open(path, "w", encoding="utf8", newline="") as f:
                f.write("\t".join(["subject_name"] + ["g-%s" % m for m in mets]) + "\n")
                for s, sn in enumerate(subj):
                    cells = [value(case["cells"]["%d,%d" % (s, m)]) for m in range(len(mets))]
                    f.write("\t".join([sn] + ["" if c is None else repr(c) for c in cells]) + "\n")
            try:
                st = Panoptica_Statistic.from_file(path)
                for m, mn in enumerate(mets):
                    want = [value(case["cells"]["%d,%d" % (s, m)]) for s in range(len(subj))]
                    want = [v for v in want if v is not None and not math.isnan(v) and not math.isinf(v)]
                    got = st.get("g", mn, remove_nones=True)
                    if list(got) != want:
                        bad = "exactly_the_finite_recorded_values_enter: recorded finite values %s, statistics object holds %s" % (want, list(got))
                    elif want and not close(st.get_summary("g", mn).avg, sum(want) / len(want)):
                        bad = "avg_is_mean_of_present_values: %r" % st.get_summary("g", mn).avg
            except Exception as e:
                bad = "table_loads: %s: %s" % (type(e).__name__, str(e)[:160])
        finally:
            shutil.rmtree(tmp, ignore_errors=True)
        if bad:
            break
    return {"match": True, "violates": bad is not None, "reason": bad, "observed": None}


REAL = {"table": real_table, "from_file": real_from_file}
