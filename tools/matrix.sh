#!/bin/bash
# tools/matrix.sh [glob] [outfile] : run seeded changes against the check of their own property (quick tier)
cd /verif
PAT=${1:-'C*_a*'}; OUT=${2:-seeded/matrix.txt}
: > $OUT
for d in seeded/$PAT; do
  sid=$(basename $d); prop=${sid%%_*}
  s=$(date +%s)
  out=$(LINES_OUT=40 timeout 1500 tools/mut.sh $d/patch.diff $prop quick 2>&1)
  rc=$(echo "$out" | grep -o "exit=[0-9]*" | tail -1)
  viol=$(echo "$out" | grep "obligation=" | head -1 | cut -c1-220)
  [ -z "$viol" ] && viol=$(echo "$out" | grep -E "INCONCLUSIVE|HARNESS-ERROR|MODEL-ERROR" | head -1 | cut -c1-220)
  e=$(date +%s)
  echo "$sid check=$prop $rc $((e-s))s | $viol" | tee -a $OUT
  git -C /repo checkout -- . 2>/dev/null
done
