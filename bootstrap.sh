#!/bin/bash
# Idempotent offline bootstrap of the overlay venv used by every check.
# /venv (the repository's environment) is left untouched; the overlay sees its
# site-packages through a .pth file and adds z3-solver / cvc5 / jsonschema from the wheelhouse.
set -e
V=/verif/.venv
if [ -x "$V/bin/python" ] && "$V/bin/python" -c "import z3, cvc5, jsonschema, numpy" 2>/dev/null; then
  exit 0
fi
(
  flock 9
  if [ -x "$V/bin/python" ] && "$V/bin/python" -c "import z3, cvc5, jsonschema, numpy" 2>/dev/null; then exit 0; fi
  rm -rf "$V"
  /venv/bin/python -m venv "$V"
  SP=$("$V/bin/python" -c "import site; print(site.getsitepackages()[0])")
  echo "import site; site.addsitedir('/venv/lib/python3.12/site-packages')" > "$SP/_venv_overlay.pth"
  PIP_NO_INDEX=1 "$V/bin/pip" install -q --no-index --no-deps --find-links /opt/veriftools/wheels \
      z3-solver cvc5 jsonschema attrs referencing rpds_py jsonschema_specifications typing_extensions >/dev/null
  "$V/bin/python" -c "import z3, cvc5, jsonschema, numpy; assert numpy.__version__.startswith('1.26'), numpy.__version__"
) 9>/verif/.bootstrap.lock
