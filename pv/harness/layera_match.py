"""Layer-A run of the WHOLE threshold matcher (real _calc_overlapping_labels, real metric kernels, real relabelling) on canonical
geometry classes with free label VALUES: shared by C03 (assignment), C04 (relabelling preserves both segmentations, no input mutation)
and C09 (the outcome is label-generic).  The geometry - which voxel carries which (prediction index, reference index) - is concrete,
so the documented best-first outcome is computed in plain Python from the geometry; the label values and the dtype are what the solver varies."""
from __future__ import annotations

import itertools
from fractions import Fraction

import z3

from ..sym import ENG, SNum, SBool, EngineSignal, declare_bounds
from ..symnp import SArr, WriteToProtected, cnum
from ..run import H, explore_case, jsonable

LIM = 1 << 24
DT_BITS = {"uint8": 8, "uint16": 16, "uint32": 32, "uint64": 64}


def canon_geoms(N, K):
    seen = set()
    for g in itertools.product(itertools.product(range(K + 1), repeat=2), repeat=N):
        ps = sorted({p for p, r in g if p})
        rs = sorted({r for p, r in g if r})
        if ps != list(range(1, len(ps) + 1)) or rs != list(range(1, len(rs) + 1)) or not ps or not rs:
            continue
        key = tuple(sorted(g))
        if key in seen:
            continue
        seen.add(key)
        yield key


def expected(g, thr=Fraction(1, 2)):
    """documented best-first one-to-one IoU matching on the geometry -> {pred index: ref index} or None on a tie of competing candidates"""
    P, R = {}, {}
    for i, (p, r) in enumerate(g):
        if p:
            P.setdefault(p, set()).add(i)
        if r:
            R.setdefault(r, set()).add(i)
    cand = [(Fraction(len(P[p] & R[r]), len(P[p] | R[r])), r, p) for r in R for p in P if P[p] & R[r]]
    elig = [c for c in cand if c[0] >= thr]
    for a, b in itertools.combinations(elig, 2):
        if a[0] == b[0] and (a[1] == b[1] or a[2] == b[2]):
            return None
    elig.sort(key=lambda c: c[0], reverse=True)
    ur, up, m = set(), set(), {}
    for s, r, p in elig:
        if r in ur or p in up:
            continue
        ur.add(r)
        up.add(p)
        m[p] = r
    return m


COMPETITION = [((1, 1), (2, 1), (2, 1), (0, 1)), ((2, 1), (1, 1), (1, 1), (0, 1)), ((1, 1), (1, 2), (1, 2), (1, 0)), ((1, 2), (1, 1), (1, 1), (1, 0)),
               ((1, 1), (2, 1), (2, 1), (2, 0))]


def matcher_cases(tier, prop):
    out = []
    # two candidates compete for one instance below IoU 1/2 (threshold 1/4): the documented outcome is decided by the scores, not by label order
    for dt in (("uint8", "uint32") if tier == "quick" else tuple(DT_BITS)):
        out.append({"name": "matcher_competition_%s" % dt, "what": "layerA_matcher", "dtype": dt, "geoms": [tuple(sorted(g)) for g in COMPETITION], "thr": [1, 4]})
    plan = [(2, dt) for dt in DT_BITS] + ([(3, "uint8")] if tier == "quick" else [(3, dt) for dt in DT_BITS])
    for N, dt in plan:
        geoms = [g for g in canon_geoms(N, 2) if expected(g) is not None]
        chunk = 6 if N == 3 else 8
        for i in range(0, len(geoms), chunk):
            out.append({"name": "matcher_%s_v%d_g%03d" % (dt, N, i), "what": "layerA_matcher", "dtype": dt, "geoms": geoms[i:i + chunk]})
    return out


def run_matcher_case(case, prop, names):
    """names: obligation-name prefix per aspect, e.g. {'assign': 'assignment_is_label_generic', ...}"""
    from ..twin import get_twin
    T = get_twin()
    IM = T.mod("panoptica.instance_matcher")
    PP = T.mod("panoptica.utils.processing_pair")
    Metric = T.panoptica.Metric
    dt = case["dtype"]
    lim = min(LIM, 1 << DT_BITS[dt])
    K = 2
    LP = [z3.Int("LP%d" % i) for i in range(1, K + 1)]
    LR = [z3.Int("LR%d" % i) for i in range(1, K + 1)]
    base = []
    for L in (LP, LR):
        prev = z3.IntVal(0)
        for l in L:
            base.append(l > prev)
            prev = l
            declare_bounds(l, 1, lim - 1)
        base.append(prev < lim)
    geoms = [tuple(tuple(x) for x in g) for g in case["geoms"]]
    thr = Fraction(*case["thr"]) if case.get("thr") else Fraction(1, 2)
    cur = {}

    def decode(m):
        g = cur["g"]
        lp = [jsonable(x, m) for x in LP]
        lr = [jsonable(x, m) for x in LR]
        return {"what": "layerA_matcher", "dtype": dt, "thr": [thr.numerator, thr.denominator], "geom": [list(x) for x in g], "pred": [lp[p - 1] if p else 0 for p, r in g], "ref": [lr[r - 1] if r else 0 for p, r in g]}
    h = H(prop, case["name"], decode, replay_kind="layerA_matcher", max_witnesses=len(geoms) * 2)

    def body_for(g):
        want = expected(g, thr)
        npred = max(p for p, r in g)

        def body():
            cur["g"] = g
            pa = SArr([LP[p - 1] if p else 0 for p, r in g], dt).protect("caller prediction")
            ra = SArr([LR[r - 1] if r else 0 for p, r in g], dt).protect("caller reference")
            try:
                mp = IM.NaiveThresholdMatching(Metric.IOU, float(thr)).match_instances(PP.UnmatchedInstancePair(pa, ra))
            except EngineSignal:
                raise
            except WriteToProtected as e:
                h.fail("no_input_mutation", detail=str(e))
                return
            except Exception as e:
                h.fail("matching_completes", detail="%s: %s" % (type(e).__name__, str(e)[:140]))
                return
            oc = [cnum(c) for c in mp.prediction_arr.cells]
            orc = [cnum(c) for c in mp.reference_arr.cells]
            h.ok("reference_unchanged", z3.And([orc[i] == (LR[r - 1] if r else 0) for i, (p, r) in enumerate(g)]))
            h.ok("foreground_unchanged", z3.And([(oc[i] != 0) == bool(p) for i, (p, r) in enumerate(g)]), detail={"out": oc})
            conds = []
            for i, (p, r) in enumerate(g):
                if p and p in want:
                    conds.append(oc[i] == LR[want[p] - 1])
                elif p:
                    conds.append(z3.And([oc[i] != x for x in LR[:max([rr for _, rr in g] + [0])]]))
            h.ok(names["assign"], z3.And(conds + [z3.BoolVal(True)]), detail={"expected_matches": {str(k): v for k, v in want.items()}, "out": oc})
            part = []
            vox = [i for i, (p, r) in enumerate(g) if p]
            for a, b in itertools.combinations(vox, 2):
                pa_, pb_ = g[a][0], g[b][0]
                same = pa_ == pb_ or (pa_ in want and pb_ in want and want[pa_] == want[pb_])
                part.append((oc[a] == oc[b]) if same else (oc[a] != oc[b]))
            h.ok("partition_preserved", z3.And(part + [z3.BoolVal(True)]))
            if want and len(want) < npred:
                h.note_nontrivial(str(g))
            h.witness(expect={"out_pred": oc})
        return body
    merged = None
    for g in geoms:
        r = explore_case(h, body_for(g), logic="QF_NIA", incremental=False, const_hash=True, base=base, concretize_div=64, time_budget=400, timeout_ms=20000)
        if merged is None:
            merged = r
        else:
            for k, v in r["stats"].items():
                merged["stats"][k] = merged["stats"].get(k, 0) + v
            merged["error"] = merged["error"] or r["error"]
            merged["wall_s"] += r["wall_s"]
            merged["functions"] = sorted(set(merged["functions"]) | set(r["functions"]))
    merged["violations"], merged["witnesses"], merged["obligations"] = h.violations, h.witnesses, h.obligations
    merged["nontrivial"] = sorted(map(str, h.nontrivial))
    return merged


def real_matcher(case, mode, expect, names):
    import numpy as np
    from panoptica import NaiveThresholdMatching, UnmatchedInstancePair, Metric
    import panoptica._functionals as F
    from pv.stubs import SerialPool
    F.Pool = SerialPool
    dt = case["dtype"]
    g = [tuple(x) for x in case["geom"]]
    pred = np.array(case["pred"], dtype=dt)
    ref = np.array(case["ref"], dtype=dt)
    p0, r0 = pred.copy(), ref.copy()
    thr = Fraction(*case["thr"]) if case.get("thr") else Fraction(1, 2)
    want = expected(g, thr)
    try:
        mp = NaiveThresholdMatching(Metric.IOU, float(thr)).match_instances(UnmatchedInstancePair(pred, ref))
    except Exception as e:
        return {"match": False, "violates": True, "reason": "matching_completes: %s: %s" % (type(e).__name__, str(e)[:160]), "observed": None}
    out = [int(x) for x in np.asarray(mp.prediction_arr).tolist()]
    oref = [int(x) for x in np.asarray(mp.reference_arr).tolist()]
    bad = None
    if not (np.array_equal(pred, p0) and np.array_equal(ref, r0)):
        bad = "no_input_mutation: matching modified the caller's arrays (%s -> %s)" % (p0.tolist(), pred.tolist())
    elif oref != [int(x) for x in r0.tolist()]:
        bad = "reference_unchanged: %s" % oref
    elif [bool(x) for x in out] != [bool(x) for x in p0.tolist()]:
        bad = "foreground_unchanged: prediction %s -> %s" % (p0.tolist(), out)
    else:
        reflabels = sorted({int(x) for x in r0.tolist() if x})
        for i, (p, r) in enumerate(g):
            if p and p in want and out[i] != reflabels[want[p] - 1]:
                bad = "%s: prediction index %d should carry reference label %d, matched prediction is %s (pred %s ref %s)" % (names["assign"], p, reflabels[want[p] - 1], out, p0.tolist(), r0.tolist())
            if p and p not in want and out[i] in reflabels:
                bad = "%s: unmatched prediction index %d carries reference label %d (pred %s ref %s -> %s)" % (names["assign"], p, out[i], p0.tolist(), r0.tolist(), out)
        vox = [i for i, (p, r) in enumerate(g) if p]
        for a, b in itertools.combinations(vox, 2):
            pa_, pb_ = g[a][0], g[b][0]
            same = pa_ == pb_ or (pa_ in want and pb_ in want and want[pa_] == want[pb_])
            if (out[a] == out[b]) != same and bad is None:
                bad = "partition_preserved: %s -> %s" % (p0.tolist(), out)
    ok = mode != "witness" or expect is None or [int(x) for x in expect["out_pred"]] == out
    return {"match": ok, "why": None if ok else "twin %s real %s" % (expect, out), "violates": bad is not None, "reason": bad, "observed": {"out_pred": out}}
