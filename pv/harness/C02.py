"""C02 - result bookkeeping: tp/fp/fn, per-TP lists and sq/rq/pq are mutually consistent (layer C, DESIGN 4/C02).

Symbolically executed (twin):
 (a) panoptic_evaluate -> crop/copy -> _handle_zero_instances_cases -> evaluate_matched_instance (decision filter,
     Metric.score_beats_threshold) -> EvaluateInstancePair -> PanopticaResult.__init__/calculate_all, Evaluation_List_Metric,
     fp/fn/prec/rec/rq/sq*/pq* with per-instance metric values as free reals (the kernel _evaluate_instance is the contract stub);
 (b) PanopticaResult constructed directly with symbolic unbounded counts and free value lists.
"""
from __future__ import annotations

import itertools
from fractions import Fraction

import z3

from ..sym import ENG, SNum, SBool, EngineSignal, declare_bounds
from ..symnp import SArr
from ..run import H, explore_case, jsonable
from .common import frac, fl, close
from . import realcommon as RC

PROP = "C02"
METRICS = ["DSC", "IOU", "ASSD", "RVD"]
SFX = {"IOU": "", "DSC": "_dsc", "ASSD": "_assd", "RVD": "_rvd"}
META = {
    "bounds": {"quick": "(a) matched pairs with k <= 3 matched instances plus 0..1 unmatched on each side, decision metric in {none, IOU, DSC, ASSD}, "
                        "free real scores and decision threshold; (b) directly constructed results: unbounded symbolic num_ref/num_pred, lists of length 0..3",
               "thorough": "k <= 4, lists of length 0..4"},
    "stubs": ["_evaluate_instance := free real value per metric and instance (IoU in (0,1], IoU <= Dice <= min(1, 2 IoU) - the linear consequences of Dice = 2 IoU/(1+IoU) decided in C06 -, ASSD >= 0, RVD > -1)",
              "multiprocessing.Pool := serial starmap", "np.std := trusted; fresh non-negative real, obligation on its arguments (exactly the TP list, ddof=0)"],
    "assumptions": ["per-instance metric values are free reals constrained by the C06/C07 lemmas", "range of rq and pq follows from den >= tp > 0 and 0 <= sq <= 1 (linear queries) by monotonicity of the quotient/product - that last step is arithmetic, not a solver query", "float64 as exact reals",
                    "counterexamples are realised as 1-D label maps and replayed through Panoptica_Evaluator.evaluate"],
    "nontrivial_rule": "paths with at least one instance passing and one failing the decision threshold, or direct results with tp >= 2",
}


def cases(tier):
    K = 3 if tier == "quick" else 4
    out = []
    for dm in (None, "IOU", "DSC", "ASSD"):
        for k in range(1, K + 1):
            for up, ur in ((0, 0), (1, 0), (0, 1), (1, 1)):
                if tier == "quick" and k == K and (up, ur) in ((1, 0), (0, 1)):
                    continue
                if dm in ("IOU", "DSC"):
                    # the threshold range is split so that a counterexample in the upper part is realisable with moderately sized instances
                    for part in ("lo", "hi"):
                        out.append({"name": "pipe_dm%s_k%d_up%d_ur%d_thr%s" % (dm, k, up, ur, part), "what": "pipe", "dm": dm, "k": k, "up": up, "ur": ur, "thr_part": part})
                    continue
                out.append({"name": "pipe_dm%s_k%d_up%d_ur%d" % (dm, k, up, ur), "what": "pipe", "dm": dm, "k": k, "up": up, "ur": ur})
    # the same pipeline reached through Panoptica_Evaluator with class groups: a single-instance group evaluated BEFORE a multi-instance group
    # (unmatched input, matcher threshold 0, decision threshold free): the multi-instance group's bookkeeping must still apply the decision threshold
    for dm in ("IOU", "DSC"):
        for k in ((1, 2) if tier == "quick" else (1, 2, 3)):
            out.append({"name": "grouped_dm%s_k%d" % (dm, k), "what": "pipe", "dm": dm, "k": k, "up": 1, "ur": 1, "grouped": True})
    # label maps WITHOUT any background voxel (k perfectly matched instances tile the whole array): the instance counts that the
    # bookkeeping is checked against come from the pair object, which must not take the smallest label for background
    for dm in (None, "IOU"):
        for k in range(2, K + 1):
            out.append({"name": "pipe_nobg_dm%s_k%d" % (dm, k), "what": "pipe", "dm": dm, "k": k, "up": 0, "ur": 0, "nobg": True})
    for n in range(0, K + 1):
        out.append({"name": "direct_len%d" % n, "what": "direct", "n": n})
    # value lists containing NaN entries (clDice 0/0, RVD of an empty reference): mean/std of such a list is NaN
    for n in range(1, K + 1):
        for pos in range(n):
            out.append({"name": "direct_len%d_nan%d" % (n, pos), "what": "direct", "n": n, "nan": {"RVD": pos}})
    return out


def _check_result(h, res, MM, tp_expected, lists_expected, n_pred, n_ref, have_lemmas):
    """obligations on a PanopticaResult `res` (twin object). lists_expected: {metric: [z3 real terms]} or None"""
    Metric, Mode = MM.Metric, MM.MetricMode

    def z(x):
        if isinstance(x, SNum):
            return z3.ToReal(x.t) if x.t.sort() == z3.IntSort() else x.t
        if isinstance(x, bool):
            raise TypeError
        if isinstance(x, (int, Fraction)):
            return z3.RealVal(x)
        if isinstance(x, float):
            if x != x or x in (float("inf"), float("-inf")):
                return x
            # a value computed by Python float arithmetic on concrete counts: recover the exact small rational
            from ..sym import float_to_fraction
            return z3.RealVal(float_to_fraction(x))
        return x
    tp, fp, fn = res.tp, res.fp, res.fn
    h.ok("tp_fp_pred", z(tp) + z(fp) == z(n_pred))
    h.ok("tp_fn_ref", z(tp) + z(fn) == z(n_ref))
    if tp_expected is not None:
        h.ok("failed_decision_is_not_tp", z(tp) == tp_expected, detail={"tp": tp})
    tpc = tp.concrete() if isinstance(tp, SNum) else tp
    for m in lists_expected:
        l = res.get_list_metric(getattr(Metric, m), Mode.ALL)
        h.ok("list_len_eq_tp", z(tp) == len(l), detail={"metric": m, "len": len(l), "tp": tp})
        exp = lists_expected[m]
        if exp is not None:
            same = len(l) == len(exp) and all(_isnan(a) == _isnan(b) for a, b in zip(l, exp))
            h.ok("list_holds_the_tp_values", same and z3.And([z(a) == b for a, b in zip(l, exp) if not _isnan(a)] + [z3.BoolVal(True)]), detail={"metric": m})
    if tpc is None or tpc == 0:
        return
    # fp/fn expected from the inputs (independent of res.fp / res.fn)
    efp, efn = z(n_pred) - z(tp), z(n_ref) - z(tp)
    den = z(tp) + efp / 2 + efn / 2
    rq = z(res.rq)
    h.ok_equal("rq_definition", rq, z(tp) / den)
    # 0 <= tp/den <= 1 follows from den >= tp > 0 (linear); the quotient itself is never handed to the solver
    h.ok("rq_range", z3.And(den >= z(tp), z(tp) > 0))
    stds = ENG.path_cache.get("std", {})
    for m in lists_expected:
        l = [z(x) for x in res.get_list_metric(getattr(Metric, m), Mode.ALL)]
        if not l:
            continue
        if any(_isnan(x) for x in l):
            # mean and standard deviation of a list with a NaN entry are NaN
            h.ok("sq_is_mean", _isnan(getattr(res, "sq" + SFX[m])), detail={"metric": m, "list_has_nan": True})
            h.ok("sq_std_is_population_std", _isnan(getattr(res, "sq" + SFX[m] + "_std")), detail={"metric": m, "list_has_nan": True})
            continue
        sq = z(getattr(res, "sq" + SFX[m]))
        sd = getattr(res, "sq" + SFX[m] + "_std")
        mean = z3.Sum(l) / len(l)
        h.ok("sq_is_mean", sq == mean, detail={"metric": m})
        # np.std is trusted; obligation: the value reported is np.std(list of this metric's TP values, ddof=0)
        rec = stds.get(str(sd.t)) if isinstance(sd, SNum) else None
        if rec is None:
            if isinstance(sd, SNum):
                mv = mean
                h.ok("sq_std_is_population_std", z3.And(z(sd) >= 0, z(sd) * z(sd) == z3.Sum([(x - mv) * (x - mv) for x in l]) / len(l)), detail={"metric": m})
            else:
                h.ok("sq_std_is_population_std", False, detail={"metric": m, "value": repr(sd)})
        else:
            args, ddof = rec
            h.ok("sq_std_is_population_std", ddof == 0 and len(args) == len(l) and z3.And([a == b for a, b in zip(args, l)]), detail={"metric": m, "ddof": ddof})
        if m in ("IOU", "DSC"):
            pq = z(getattr(res, "pq" + SFX[m]))
            h.ok_equal("pq_is_sq_times_rq", pq, sq * (z(tp) / den), detail={"metric": m})
            # sq in [0,1] (linear) and rq in [0,1] (above) give pq in [0,1]
            h.ok("ranges", z3.And(sq >= 0, sq <= 1), detail={"metric": m})
    if have_lemmas and "IOU" in lists_expected and "DSC" in lists_expected:
        h.ok("sq_dsc_ge_sq", z(res.sq_dsc) >= z(res.sq))


def _isnan(x):
    return isinstance(x, float) and x != x


def run_case(case):
    from ..twin import Twin
    T = Twin()
    MM = T.mod("panoptica.metrics.metrics")
    Metric = MM.Metric
    if case["what"] == "pipe":
        return _run_pipe(case, T, MM)
    return _run_direct(case, T, MM)


class _Done(Exception):
    pass


def _run_pipe(case, T, MM):
    IE = T.mod("panoptica.instance_evaluator")
    PE = T.mod("panoptica.panoptica_evaluator")
    PP = T.mod("panoptica.utils.processing_pair")
    Metric = MM.Metric
    dm, k, up, ur = case["dm"], case["k"], case["up"], case["ur"]
    vals = {m: [z3.Real("%s_%d" % (m.lower(), i)) for i in range(k)] for m in METRICS}
    thr = z3.Real("dthr")
    base = [thr >= 0]
    for i in range(k):
        iou, dsc = vals["IOU"][i], vals["DSC"][i]
        base += [iou > 0, iou <= 1, dsc >= iou, dsc <= 2 * iou, dsc <= 1, vals["ASSD"][i] >= 0, vals["RVD"][i] > -1]
    if dm in ("IOU", "DSC"):
        base.append(thr <= 1)
        if case.get("thr_part") == "lo":
            base.append(thr < z3.Q(1, 8))
        elif case.get("thr_part") == "hi":
            base.append(thr >= z3.Q(1, 8))
    # concrete tiny matched pair: labels 1..k on both sides, then unmatched prediction label k+1 / reference label k+2
    ref = list(range(1, k + 1)) + ([0] if up else []) + ([k + 2] if ur else []) + [0]
    pred = list(range(1, k + 1)) + ([k + 1] if up else []) + ([0] if ur else []) + [0]
    if case.get("nobg"):
        # no background voxel at all: identical tilings, so the only realisable scores are those of a perfect match
        assert not up and not ur
        ref, pred = ref[:-1], pred[:-1]
        for i in range(k):
            base += [vals["IOU"][i] == 1, vals["DSC"][i] == 1, vals["ASSD"][i] == 0, vals["RVD"][i] == 0]
    n_pred, n_ref = k + up, k + ur
    eval_metrics = [getattr(Metric, m) for m in METRICS]
    grouped = bool(case.get("grouped"))
    if grouped:
        # label k+3: one voxel on both sides, its own single-instance group
        ref, pred = ref + [k + 3, 0], pred + [k + 3, 0]

        def free_match_metric(ref_mask, pred_mask, *a, **kw):
            rc = [i for i, c in enumerate(ref_mask.cells) if c is True]
            assert len(rc) == 1 and 0 <= rc[0] < k, rc
            return SNum(vals[dm][rc[0]], "float64")
        getattr(Metric, dm).value._metric_function = free_match_metric

    def kernel(reference_arr, prediction_arr, ref_idx, eval_metrics):
        i = int(ref_idx) - 1
        if grouped and not 0 <= i < k:
            # the single-instance group's one instance (label k+3: identical one-voxel masks), or - on a broken tree - a pair of labels
            # that do not overlap at all in these maps (overlap scores 0)
            same = int(ref_idx) == k + 3 or int(ref_idx) == 1
            return {m: SNum(z3.RealVal(0 if m.name in ("ASSD", "RVD") else (1 if same else 0)), "float64") for m in eval_metrics}
        assert 0 <= i < k
        return {m: SNum(vals[m.name][i], "float64") for m in eval_metrics}
    IE._evaluate_instance = kernel

    def decode(m):
        return {"what": "pipe", "dm": dm, "k": k, "up": up, "ur": ur, "thr": jsonable(thr, m), "unused_matcher": bool(jsonable(z3.Bool("unused_matcher_configured"), m)), "grouped": grouped, "nobg": bool(case.get("nobg")),
                "vals": {mm: [jsonable(v, m) for v in vals[mm]] for mm in METRICS}}
    h = H(PROP, case["name"], decode, replay_kind="pipe", max_witnesses=12)

    def body():
        pair = PP.MatchedInstancePair(SArr(list(pred), "uint8").protect("caller prediction"), SArr(list(ref), "uint8").protect("caller reference"))
        try:
            if grouped:
                LG = T.mod("panoptica.utils.label_group")
                SC = T.mod("panoptica.utils.segmentation_class")
                groups = SC.SegmentationClassGroups({"S": LG.LabelGroup([k + 3], True), "M": LG.LabelGroup(list(range(1, k + 3)), False)})
                ev = PE.Panoptica_Evaluator(expected_input=PP.InputType.UNMATCHED_INSTANCE, instance_matcher=T.panoptica.NaiveThresholdMatching(getattr(Metric, dm), 0.0),
                                            segmentation_class_groups=groups, instance_metrics=eval_metrics, global_metrics=[], decision_metric=getattr(Metric, dm), decision_threshold=SNum(thr))
                res = ev.evaluate(SArr(list(pred), "uint8").protect("caller prediction"), SArr(list(ref), "uint8").protect("caller reference"), verbose=False)["m"][0]
                raise _Done(res)
            # option combination: a matcher that the matched input never uses may be configured alongside (metric = decision metric, threshold 1/2)
            unused = None
            if bool(SBool(z3.Bool("unused_matcher_configured"))):
                unused = T.panoptica.NaiveThresholdMatching(getattr(Metric, dm) if dm else Metric.IOU, 0.5)
            res, _ = PE.panoptic_evaluate(pair, instance_matcher=unused, instance_metrics=eval_metrics, global_metrics=[], decision_metric=None if dm is None else getattr(Metric, dm),
                                          decision_threshold=None if dm is None else SNum(thr), verbose=False)
        except EngineSignal:
            raise
        except _Done as d:
            res = d.args[0]
        except Exception as e:
            import os, traceback
            if os.environ.get("VERIF_TRACE"):
                traceback.print_exc()
            h.fail("completes", detail="%s: %s" % (type(e).__name__, str(e)[:120]))
            return
        inc = dm in ("IOU", "DSC")
        if dm is None:
            passing = [z3.BoolVal(True)] * k
        else:
            passing = [(vals[dm][i] >= thr) if inc else (vals[dm][i] <= thr) for i in range(k)]
        # which instances pass is decided on the path (score_beats_threshold forks)
        status = []
        for c in passing:
            r1, _ = ENG.check(c, want_model=False)
            r2, _ = ENG.check(z3.Not(c), want_model=False)
            status.append(True if r2 == "unsat" else (False if r1 == "unsat" else None))
        if any(s is None for s in status):
            # the path did not decide whether instance i meets the threshold: what it did with the instance must then be right for BOTH outcomes
            try:
                kept = [x.t if isinstance(x, SNum) else None for x in res.get_list_metric(getattr(Metric, dm), MM.MetricMode.ALL)]
            except EngineSignal:
                raise
            except Exception:
                kept = None
            if kept is None:
                h.fail("decision_is_decided_per_instance", detail="the result does not depend on whether an instance meets the decision threshold")
                return
            import os as _os
            if _os.environ.get("VERIF_TRACE"):
                print("KEPT", [(type(x).__name__, x) for x in res.get_list_metric(getattr(Metric, dm), MM.MetricMode.ALL)], res.tp, flush=True)
            for i in range(k):
                if status[i] is None:
                    counted = any(t is not None and (t.eq(vals[dm][i]) or ENG.check(t != vals[dm][i], want_model=False)[0] == "unsat") for t in kept)
                    h.ok("failed_decision_is_not_tp", passing[i] if counted else z3.Not(passing[i]),
                         detail={"instance": i + 1, "counted_as_tp": counted, "note": "the path never compared this score with the threshold"})
            return
        exp_tp = sum(1 for s in status if s)
        lists = {m: [vals[m][i] for i in range(k) if status[i]] for m in METRICS}
        if 0 < exp_tp < k:
            h.note_nontrivial(tuple(status))
        _check_result(h, res, MM, exp_tp, lists, n_pred, n_ref, True)
        h.witness(expect={"tp": res.tp, "fp": res.fp, "fn": res.fn})
    return explore_case(h, body, base=base, time_budget=3000)


def _run_direct(case, T, MM):
    PR = T.mod("panoptica.panoptica_result")
    EH = T.mod("panoptica.utils.edge_case_handling")
    Metric = MM.Metric
    n = case["n"]
    vals = {m: [z3.Real("%s_%d" % (m.lower(), i)) for i in range(n)] for m in METRICS}
    extra_p, extra_r = z3.Int("extra_pred"), z3.Int("extra_ref")
    base = [extra_p >= 0, extra_r >= 0]
    for i in range(n):
        iou, dsc = vals["IOU"][i], vals["DSC"][i]
        base += [iou >= 0, iou <= 1, dsc >= iou, dsc <= 2 * iou, dsc <= 1, vals["ASSD"][i] >= 0, vals["RVD"][i] >= -1]

    def decode(m):
        return {"what": "direct", "n": n, "extra_pred": jsonable(extra_p, m), "extra_ref": jsonable(extra_r, m),
                "vals": {mm: [({"float": "nan"} if case.get("nan", {}).get(mm) == i else jsonable(v, m)) for i, v in enumerate(vals[mm])] for mm in METRICS}}
    h = H(PROP, case["name"], decode, replay_kind="direct", max_witnesses=6)

    nanpos = case.get("nan", {})

    def body():
        n_pred, n_ref = SNum(n + extra_p), SNum(n + extra_r)
        try:
            res = PR.PanopticaResult(reference_arr=None, prediction_arr=None, num_pred_instances=n_pred, num_ref_instances=n_ref, tp=n,
                                     list_metrics={getattr(Metric, m): [float("nan") if nanpos.get(m) == i else SNum(v, "float64") for i, v in enumerate(vals[m])] for m in METRICS},
                                     edge_case_handler=EH.EdgeCaseHandler())
            res.calculate_all(print_errors=False)
            d = res.to_dict()
        except EngineSignal:
            raise
        except Exception as e:
            h.fail("completes", detail="%s: %s" % (type(e).__name__, str(e)[:120]))
            return
        if n >= 2:
            h.note_nontrivial(n)
        _check_result(h, res, MM, None, {m: [float("nan") if nanpos.get(m) == i else v for i, v in enumerate(vals[m])] for m in METRICS}, n_pred, n_ref, True)
        for key in ("tp", "fp", "fn", "rq", "sq", "pq", "sq_dsc", "pq_dsc", "sq_assd", "sq_rvd", "sq_std"):
            h.ok("to_dict_reports_" + key, key in d)
        h.witness(expect=None)
    return explore_case(h, body, base=base, time_budget=3000)


# ================================================================================================ real-package side
def _realise_pipe(case):
    """1-D matched label maps whose per-instance decision-metric values relate to the threshold as in the abstract case"""
    dm, k = case["dm"], case["k"]
    DEN = 1024
    thr = frac(case["thr"])
    s = z3.Solver()
    kk = z3.Int("k")
    s.add(kk >= 0, kk <= (DEN if dm != "ASSD" else 8 * DEN))
    I = [z3.Int("I%d" % i) for i in range(k)]
    Rr = [z3.Int("R%d" % i) for i in range(k)]
    Pp = [z3.Int("P%d" % i) for i in range(k)]
    D = [z3.Int("D%d" % i) for i in range(k)]
    for i in range(k):
        if dm in (None, "IOU", "DSC"):
            s.add(I[i] >= 1, Rr[i] >= I[i], Pp[i] >= I[i], Rr[i] <= 8, Pp[i] <= 8)
            if dm is not None:
                v = frac(case["vals"][dm][i])
                num, den = (I[i], Rr[i] + Pp[i] - I[i]) if dm == "IOU" else (2 * I[i], Rr[i] + Pp[i])
                s.add((num * DEN < kk * den) if v < thr else ((num * DEN == kk * den) if v == thr else (num * DEN > kk * den)))
        else:
            v = frac(case["vals"]["ASSD"][i])
            s.add(D[i] >= 0, D[i] <= 6)
            s.add((D[i] * DEN < kk) if v < thr else ((D[i] * DEN == kk) if v == thr else (D[i] * DEN > kk)))
    near = False
    if dm in ("IOU", "DSC"):
        from fractions import Fraction as Fr0
        near = any(frac(case["vals"][dm][i]) != thr and abs(frac(case["vals"][dm][i]) - thr) <= Fr0(1e-8) + Fr0(1e-5) * abs(thr) for i in range(k))
    if near or str(s.check()) != "sat":
        if dm not in ("IOU", "DSC"):
            return None
        # second attempt for scores that sit within a floating-point tolerance of the threshold: large instances (up to 2^21 voxels), threshold k/1024
        # nearest to the abstract one, and for every instance the same order relation to the threshold AND the same verdict of numpy's isclose formula
        from fractions import Fraction as Fr
        kq = min(1023, max(1, round(thr * 1024)))
        s = z3.Solver()
        s.set("timeout", 60000)
        BIG = 1 << 21
        for i in range(k):
            v = frac(case["vals"][dm][i])
            s.add(I[i] >= 1, Rr[i] >= I[i], Pp[i] >= I[i], Rr[i] <= BIG, Pp[i] <= BIG)
            num, den = (I[i], Rr[i] + Pp[i] - I[i]) if dm == "IOU" else (2 * I[i], Rr[i] + Pp[i])
            s.add((num * 1024 < kq * den) if v < thr else ((num * 1024 == kq * den) if v == thr else (num * 1024 > kq * den)))
            diff = num * 1024 - kq * den
            absd = z3.If(diff >= 0, diff, -diff)
            close_ = abs(v - thr) <= Fr(1e-8) + Fr(1e-5) * abs(thr)      # numpy.isclose defaults, as the floats they are
            coef = Fr(1e-8) * 1024 + Fr(1e-5) * kq                       # |num/den - kq/1024| <= atol + rtol*kq/1024, times den*1024
            lim = z3.RealVal(coef) * z3.ToReal(den)
            s.add((z3.ToReal(absd) <= lim) if close_ else (z3.ToReal(absd) > lim))
        if str(s.check()) != "sat":
            return None
        m = s.model()
        g = lambda x: m.eval(x, True).as_long()
        ref, pred = [], []
        for i in range(k):
            lab = i + 1
            ii, rr, pp = g(I[i]), g(Rr[i]), g(Pp[i])
            ref += [lab] * ii + [lab] * (rr - ii) + [0] * (pp - ii) + [0]
            pred += [lab] * ii + [0] * (rr - ii) + [lab] * (pp - ii) + [0]
        if case["up"]:
            ref += [0, 0]
            pred += [k + 1, 0]
        if case["ur"]:
            ref += [k + 2, 0]
            pred += [0, 0]
        return {"pred": pred, "ref": ref, "thr": kq / 1024}
    m = s.model()
    g = lambda x: m.eval(x, True).as_long()
    ref, pred = [], []
    for i in range(k):
        lab = i + 1
        if dm == "ASSD":
            d = g(D[i])
            # equal-length intervals shifted by d voxels: ASSD == d
            seg_r = [lab] * 3 + [0] * d
            seg_p = [0] * d + [lab] * 3
            ref += seg_r + [0, 0]
            pred += seg_p + [0, 0]
        else:
            ii, rr, pp = g(I[i]), g(Rr[i]), g(Pp[i])
            ref += [lab] * ii + [lab] * (rr - ii) + [0] * (pp - ii) + [0]
            pred += [lab] * ii + [0] * (rr - ii) + [lab] * (pp - ii) + [0]
    if case["up"]:
        ref += [0, 0]
        pred += [k + 1, 0]
    if case["ur"]:
        ref += [k + 2, 0]
        pred += [0, 0]
    return {"pred": pred, "ref": ref, "thr": g(kk) / DEN}


def real_pipe(case, mode, expect):
    import numpy as np
    RC.use_serial_pool(mode == "witness")
    arrs = _realise_pipe(case)
    if arrs is None:
        return {"error": "abstract case not realisable"}
    if case.get("nobg"):
        # drop every voxel that is background on both sides (the separators of the realised layout)
        keep = [j for j in range(len(arrs["ref"])) if arrs["ref"][j] or arrs["pred"][j]]
        arrs = dict(arrs, ref=[arrs["ref"][j] for j in keep], pred=[arrs["pred"][j] for j in keep])
    mets = ["DSC", "IOU", "RVD"] + (["ASSD"] if case["dm"] == "ASSD" else [])
    cfg = {"input_type": "MATCHED_INSTANCE", "metrics": mets, "decision_metric": case["dm"], "decision_threshold": arrs["thr"], "global_metrics": []}
    if case.get("grouped"):
        return _real_grouped(case, arrs, cfg, mets, mode, expect)
    ev = RC.build_evaluator(cfg)
    if case.get("unused_matcher"):
        from panoptica import NaiveThresholdMatching, Metric
        ev._set_instance_matcher(NaiveThresholdMatching(getattr(Metric, case["dm"]) if case["dm"] else Metric.IOU, 0.5))
    try:
        res = ev.evaluate(np.array(arrs["pred"], dtype=np.uint8), np.array(arrs["ref"], dtype=np.uint8), verbose=False)["ungrouped"][0]
        o = RC.result_to_dict(res, mets)
    except Exception as e:
        return {"violates": True, "match": False, "reason": "completes: %s: %s" % (type(e).__name__, str(e)[:150]), "observed": {"arrays": arrs}}
    bad = RC.bookkeeping_oracle(o, mets)
    if bad is None:
        want = RC.reference_pipeline(arrs["pred"], arrs["ref"], cfg)
        bad = RC.definition_oracle(o, want, [m for m in mets if m != "ASSD"])
        if bad is not None and bad[0] == "counts":
            bad = ("failed_decision_is_not_tp", bad[1])
    obs = {"arrays": arrs, "result": o}
    ok = mode != "witness" or expect is None or all(o[k] == expect[k] for k in ("tp", "fp", "fn"))
    return {"match": ok, "why": None if ok else "tp/fp/fn differ from the twin: %s" % expect, "violates": bad is not None,
            "reason": None if bad is None else "%s: %s" % bad, "observed": obs}


def _real_grouped(case, arrs, cfg, mets, mode, expect):
    import numpy as np
    from panoptica.utils.label_group import LabelGroup
    from panoptica.utils.segmentation_class import SegmentationClassGroups
    k = case["k"]
    cfg = dict(cfg, input_type="UNMATCHED_INSTANCE", matching_metric=case["dm"], matching_threshold=0.0)
    pred, ref = arrs["pred"] + [k + 3, 0], arrs["ref"] + [k + 3, 0]
    arrs = dict(arrs, pred=pred, ref=ref)
    ev = RC.build_evaluator(cfg)
    ev._Panoptica_Evaluator__segmentation_class_groups = SegmentationClassGroups({"S": LabelGroup([k + 3], True), "M": LabelGroup(list(range(1, k + 3)), False)})
    try:
        res = ev.evaluate(np.array(pred, dtype=np.uint8), np.array(ref, dtype=np.uint8), verbose=False)["m"][0]
        o = RC.result_to_dict(res, mets)
    except Exception as e:
        return {"violates": True, "match": False, "reason": "completes: %s: %s" % (type(e).__name__, str(e)[:150]), "observed": {"arrays": arrs}}
    bad = RC.bookkeeping_oracle(o, mets)
    if bad is None:
        mp = [v if v <= k + 2 else 0 for v in pred]
        mr = [v if v <= k + 2 else 0 for v in ref]
        want = RC.reference_pipeline(mp, mr, cfg)
        bad = RC.definition_oracle(o, want, [m for m in mets if m != "ASSD"])
        if bad is not None and bad[0] == "counts":
            bad = ("failed_decision_is_not_tp", "multi-instance group evaluated after a single-instance group: " + bad[1])
    ok = mode != "witness" or expect is None or all(o[kk] == expect[kk] for kk in ("tp", "fp", "fn"))
    return {"match": ok, "why": None if ok else "tp/fp/fn differ from the twin: %s" % expect, "violates": bad is not None,
            "reason": None if bad is None else "%s: %s" % bad, "observed": {"arrays": arrs, "result": o}}


def real_direct(case, mode, expect):
    from panoptica import PanopticaResult, Metric
    from panoptica.utils import EdgeCaseHandler
    n = case["n"]
    lists = {m: [fl(v) for v in case["vals"][m]] for m in METRICS}
    try:
        res = PanopticaResult(reference_arr=None, prediction_arr=None, num_pred_instances=n + case["extra_pred"], num_ref_instances=n + case["extra_ref"],
                              tp=n, list_metrics={getattr(Metric, m): lists[m] for m in METRICS}, edge_case_handler=EdgeCaseHandler())
        res.calculate_all()
        o = RC.result_to_dict(res, METRICS)
    except Exception as e:
        return {"violates": True, "match": False, "reason": "completes: %s: %s" % (type(e).__name__, str(e)[:150]), "observed": None}
    bad = RC.bookkeeping_oracle(o, METRICS)
    return {"match": True, "violates": bad is not None, "reason": None if bad is None else "%s: %s" % bad, "observed": o}


REAL = {"pipe": real_pipe, "direct": real_direct}
