"""C15 - evaluation is pure: no input mutation, no history, option or worker dependence (DESIGN 4/C15).

Symbolically executed (twin): Panoptica_Evaluator.__init__/evaluate/_evaluate_group/resulting_metric_keys/_yaml_repr, panoptic_evaluate and the
whole pipeline below it, Panoptica_Aggregator.__init__ (file model), EdgeCaseHandler/MetricZeroTPEdgeCaseHandling constructors.
Symbolic: the constructor flags and per-call options (lazily decided), the clock (arbitrary non-decreasing reals), and the HISTORY: a sequence
of up to three operations chosen by the solver from a fixed operation alphabet, executed before the evaluation that is compared with the
reference evaluation made at the start of the path.  Caller-owned arrays are write-protected.
"""
from __future__ import annotations

import z3

from ..sym import ENG, SNum, SBool, EngineSignal, declare_bounds
from ..symnp import SArr, WriteToProtected
from ..run import H, explore_case, jsonable
from .. import fsmodel

PROP = "C15"
FRESH_REPLAY = True      # histories may pollute process-global state of the real package
OPS = ["evaluate_x1", "evaluate_x2", "construct_other_evaluator_cldsc", "construct_default_handler_and_evaluator", "aggregator_log_times",
       "read_metric_keys", "aggregator_plain", "evaluate_x1_save_group_times", "evaluate_merge_group_only_input", "other_evaluator_reads_its_keys",
       "evaluate_empty_prediction"]
XE = ([0, 0, 0, 0, 0, 0, 0, 0], [1, 1, 1, 0, 2, 2, 0, 0])      # empty prediction: precision is 0/0 and is left out of that result's dictionary
X3 = ([0, 3, 3, 4, 0, 0, 4, 0, 0, 0], [0, 3, 3, 3, 4, 0, 0, 0, 0, 0])      # only labels of the merge group (3, 4)
X1 = ([1, 1, 1, 0, 2, 2, 0, 0], [1, 1, 1, 1, 1, 1, 0, 2])      # pred, ref: group-1 instance with IoU 1/2, group-2 pieces
X2 = ([0, 1, 1, 0, 0, 2, 2, 2], [1, 1, 1, 1, 1, 0, 2, 2])      # group-1 instance with IoU 2/5 (between matcher and decision threshold)
XF = ([0, 1, 1, 1, 0, 2, 2, 0, 0, 0], [1, 1, 1, 1, 0, 0, 2, 2, 2, 2])      # final input: IoU 3/4 in group 1, 1/5..2/5 in group 2 (between matcher and decision threshold)
KEYS = ["tp", "fp", "fn", "rq", "sq", "pq", "sq_dsc", "pq_dsc", "sq_std", "global_bin_dsc", "num_ref_instances", "num_pred_instances"]
META = {
    "bounds": {"quick": "histories of length <= 2 over 8 operations before the compared evaluation (length 3 in the thorough tier); all 2^3 constructor flag x 3^3 per-call option x result_all combinations with a symbolic clock; "
                        "fixed 1-D inputs with an instance scoring between the matcher and the decision threshold; evaluator with a single-instance group and default metric lists",
               "thorough": "histories of length <= 3"},
    "stubs": ["multiprocessing.Pool := serial order-preserving starmap (real worker scheduling is outside the claim)", "csv/open/pathlib/os.remove/atexit := in-memory file model",
              "perf_counter := arbitrary non-decreasing reals"],
    "assumptions": ["inputs are fixed concrete label maps (the history and the options are what the solver varies)", "saved configuration is compared through _yaml_repr (YAML text layer: C19)"],
    "nontrivial_rule": "distinct operation sequences / option combinations",
}


def cases(tier):
    out = [{"name": "options_ctor%d" % c, "what": "options", "ctor": c} for c in range(8)]
    L = 2 if tier == "quick" else 3
    for first in range(len(OPS)):
        out.append({"name": "history_first_%s" % OPS[first], "what": "history", "first": first, "L": L})
    out.append({"name": "semantic_evaluator_reused_across_dimensionalities", "what": "semantic"})
    return out


def _res_dict(res):
    out = {}
    for k in KEYS:
        try:
            out[k] = getattr(res, k)
        except EngineSignal:
            raise
        except Exception as e:
            out[k] = "ERR:%s" % type(e).__name__
    return out


def _same(a, b):
    if isinstance(a, SNum) or isinstance(b, SNum):
        try:
            return (SNum(a) == SNum(b)).t if not (isinstance(a, (str, type(None))) or isinstance(b, (str, type(None)))) else False
        except Exception:
            return False
    if isinstance(a, float) and isinstance(b, float) and a != a and b != b:
        return True
    return a == b


def run_case(case):
    from ..twin import Twin
    fs = fsmodel.FS()
    mods, fopen = fsmodel.make_modules(fs)
    T = Twin(fakes=mods, extra_builtins={"open": fopen})
    P = T.panoptica
    PE = T.mod("panoptica.panoptica_evaluator")
    PA = T.mod("panoptica.panoptica_aggregator")
    EH = T.mod("panoptica.utils.edge_case_handling")
    LG = T.mod("panoptica.utils.label_group")
    SC = T.mod("panoptica.utils.segmentation_class")
    Metric = P.Metric
    clock = {"n": 0, "last": None}

    def perf_counter():
        clock["n"] += 1
        t = z3.Real(ENG.fresh_name("clock"))
        if clock["last"] is not None:
            ENG.assume(t >= clock["last"])
        clock["last"] = t
        return SNum(t)
    PE.perf_counter = perf_counter

    def make(**kw):
        # the plain group comes first: a per-call side effect of the single-instance group can only show in a LATER call
        groups = SC.SegmentationClassGroups({"m": LG.LabelMergeGroup([3, 4]), "b": LG.LabelGroup(2), "a": LG.LabelGroup(1, single_instance=True)})
        return P.Panoptica_Evaluator(expected_input=P.InputType.UNMATCHED_INSTANCE, instance_matcher=P.NaiveThresholdMatching(Metric.IOU, 0.25),
                                     segmentation_class_groups=groups, decision_metric=Metric.IOU, decision_threshold=0.5, **kw)

    def arrays(x):
        return SArr(list(x[0]), "uint8").protect("caller prediction"), SArr(list(x[1]), "uint8").protect("caller reference")

    def run(ev, x, **kw):
        out = ev.evaluate(*arrays(x), **kw)
        return {g: _res_dict(out[g][0]) for g in ("a", "b", "m")}

    if case["what"] == "options":
        c = case["ctor"]
        ctor = {"save_group_times": bool(c & 1), "log_times": bool(c & 2), "verbose": bool(c & 4)}
        ov = {k: z3.Int("opt_" + k) for k in ("result_all", "save_group_times", "log_times", "verbose")}
        base = [z3.And(ov["result_all"] >= 0, ov["result_all"] <= 1)] + [z3.And(ov[k] >= 0, ov[k] <= 2) for k in ("save_group_times", "log_times", "verbose")]

        def decode(m):
            return {"what": "options", "ctor": ctor, "call": {k: jsonable(v, m) for k, v in ov.items()}}
        h = H(PROP, case["name"], decode, replay_kind="options", max_witnesses=12)

        def body():
            clock["last"] = None
            call = {"result_all": bool(ENG.concretize(ov["result_all"], 0, 1))}
            for k in ("save_group_times", "log_times", "verbose"):
                call[k] = [None, False, True][ENG.concretize(ov[k], 0, 2)]
            h.note_nontrivial(str(call))
            try:
                ref = run(make(), XF, verbose=False)
            except EngineSignal:
                raise
            except Exception as e:
                h.fail("reference_run_completes", detail=str(e)[:100])
                return
            try:
                got = run(make(**ctor), XF, **call)
            except EngineSignal:
                raise
            except WriteToProtected as e:
                h.fail("no_input_mutation", detail=str(e))
                return
            except Exception as e:
                h.fail("options_never_raise", detail="%s: %s" % (type(e).__name__, str(e)[:120]))
                return
            for g in ref:
                for k in KEYS:
                    h.ok("options_do_not_change_metrics", _same(got[g][k], ref[g][k]), detail={"group": g, "key": k, "got": repr(got[g][k]), "default": repr(ref[g][k])})
            h.witness(expect=None)
        return explore_case(h, body, base=base, concretize_div=64, time_budget=3000)

    if case["what"] == "semantic":
        order = z3.Int("first_is_3d")

        def decode_s(m):
            return {"what": "semantic", "first_is_3d": jsonable(order, m)}
        h = H(PROP, case["name"], decode_s, replay_kind="semantic", max_witnesses=4)
        D3 = ([[[1, 0], [0, 1]]], (1, 2, 2))
        D2 = ([[1, 0], [0, 1]], (2, 2))

        def mk_sem():
            return P.Panoptica_Evaluator(expected_input=P.InputType.SEMANTIC, instance_approximator=P.ConnectedComponentsInstanceApproximator(), instance_matcher=P.NaiveThresholdMatching())

        def run_sem(ev, d):
            flat = [x for row in (d[0][0] if len(d[1]) == 3 else d[0]) for x in row]
            a = SArr(list(flat), "uint8", d[1]).protect("caller prediction")
            b = SArr(list(flat), "uint8", d[1]).protect("caller reference")
            r = ev.evaluate(a, b, verbose=False)["ungrouped"][0]
            return {k: getattr(r, k) for k in ("num_ref_instances", "num_pred_instances", "tp", "fp", "fn")}

        def body_s():
            first3d = ENG.concretize(order, 0, 1) == 1
            seq = [D3, D2] if first3d else [D2, D3]
            try:
                ref = run_sem(mk_sem(), seq[1])
                cfg0 = _deep_cfg(mk_sem())
                ev = mk_sem()
                run_sem(ev, seq[0])
                got = run_sem(ev, seq[1])
            except EngineSignal:
                raise
            except Exception as e:
                h.fail("operations_never_raise", detail="%s: %s" % (type(e).__name__, str(e)[:120]))
                return
            for k in ref:
                h.ok("history_does_not_change_metrics", _same(got[k], ref[k]), detail={"key": k, "got": repr(got[k]), "fresh": repr(ref[k]), "first_is_3d": first3d})
            h.ok("configuration_unchanged_through_use", _deep_cfg(ev) == cfg0, detail={"now": repr(_deep_cfg(ev))[:200]})
            h.note_nontrivial(first3d)
            h.note_nontrivial("semantic")
            h.witness(expect=None)
        return explore_case(h, body_s, base=[order >= 0, order <= 1], concretize_div=64, time_budget=3000)

    # ------------------------------------------------------------------ history
    L = case["L"]
    hv = [z3.Int("op%d" % i) for i in range(L)]
    ln = z3.Int("hist_len")
    base = [z3.And(v >= 0, v < len(OPS)) for v in hv] + [ln >= 1, ln <= L, hv[0] == case["first"]]

    def decode(m):
        n = jsonable(ln, m)
        return {"what": "history", "ops": [OPS[jsonable(v, m)] for v in hv[:n]]}
    h = H(PROP, case["name"], decode, replay_kind="history", max_witnesses=12)

    def body():
        clock["last"] = None
        fs.__init__()
        fs.dirs.add("/out")
        try:
            ev0 = make()
            ref = run(ev0, XF, verbose=False)
            keys0 = list(ev0.resulting_metric_keys)
            repr0 = _cfg(make())
        except EngineSignal:
            raise
        except Exception as e:
            h.fail("reference_run_completes", detail=str(e)[:100])
            return
        ev = make()
        n = ENG.concretize(ln, 1, L)
        seq = []
        try:
            for i in range(n):
                op = OPS[ENG.concretize(hv[i], 0, len(OPS) - 1)]
                seq.append(op)
                if op == "evaluate_x1":
                    run(ev, X1, verbose=False)
                elif op == "evaluate_x2":
                    run(ev, X2, verbose=False)
                elif op == "evaluate_x1_save_group_times":
                    run(ev, X1, verbose=False, save_group_times=True)
                elif op == "construct_other_evaluator_cldsc":
                    P.Panoptica_Evaluator(decision_metric=Metric.clDSC, decision_threshold=0.5)
                elif op == "construct_default_handler_and_evaluator":
                    EH.EdgeCaseHandler()
                    P.Panoptica_Evaluator()
                elif op == "aggregator_log_times":
                    PA.Panoptica_Aggregator(ev, "/out/a.tsv", log_times=True)
                elif op == "aggregator_plain":
                    PA.Panoptica_Aggregator(ev, "/out/b.tsv")
                elif op == "read_metric_keys":
                    ev.resulting_metric_keys
                elif op == "evaluate_merge_group_only_input":
                    run(ev, X3, verbose=False)
                elif op == "evaluate_empty_prediction":
                    run(ev, XE, verbose=False)
                elif op == "other_evaluator_reads_its_keys":
                    P.Panoptica_Evaluator(global_metrics=[Metric.DSC]).resulting_metric_keys
        except EngineSignal:
            raise
        except WriteToProtected as e:
            h.fail("no_input_mutation", detail=str(e))
            return
        except Exception as e:
            h.fail("operations_never_raise", detail="%s: %s: %s" % (seq, type(e).__name__, str(e)[:100]))
            return
        h.note_nontrivial(str(seq))
        try:
            got = run(ev, XF, verbose=False)
            keys1 = list(ev.resulting_metric_keys)
            keys_fresh = list(make().resulting_metric_keys)
        except EngineSignal:
            raise
        except WriteToProtected as e:
            h.fail("no_input_mutation", detail=str(e))
            return
        except Exception as e:
            h.fail("operations_never_raise", detail="%s then evaluate: %s: %s" % (seq, type(e).__name__, str(e)[:100]))
            return
        for g in ref:
            for k in KEYS:
                h.ok("history_does_not_change_metrics", _same(got[g][k], ref[g][k]), detail={"ops": seq, "group": g, "key": k, "got": repr(got[g][k]), "fresh": repr(ref[g][k])})
        h.ok("metric_keys_unchanged_through_use", keys1 == keys0, detail={"ops": seq, "now": keys1[-3:], "before": keys0[-3:]})
        h.ok("fresh_evaluator_metric_keys_unchanged", keys_fresh == keys0, detail={"ops": seq})
        try:
            wide = list(P.Panoptica_Evaluator(global_metrics=[Metric.DSC, Metric.IOU, Metric.RVD]).resulting_metric_keys)
        except EngineSignal:
            raise
        except Exception as e:
            wide = ["ERR %s" % e]
        h.ok("advertised_keys_cover_the_requested_global_metrics", all(k in wide for k in ("global_bin_dsc", "global_bin_iou", "global_bin_rvd")), detail={"ops": seq, "keys": wide[-4:]})
        h.ok("configuration_unchanged_through_use", _cfg(ev) == repr0, detail={"ops": seq})
        h.witness(expect=None)

    def _cfg(e):
        return _deep_cfg(e)
    return explore_case(h, body, base=base, concretize_div=64, time_budget=3000)


# ================================================================================================ real-package side
def _make_real(**kw):
    from panoptica import Panoptica_Evaluator, InputType, NaiveThresholdMatching, Metric
    from panoptica.utils.label_group import LabelGroup
    from panoptica.utils.segmentation_class import SegmentationClassGroups
    from panoptica.utils.label_group import LabelMergeGroup
    groups = SegmentationClassGroups({"m": LabelMergeGroup([3, 4]), "b": LabelGroup(2), "a": LabelGroup(1, single_instance=True)})
    return Panoptica_Evaluator(expected_input=InputType.UNMATCHED_INSTANCE, instance_matcher=NaiveThresholdMatching(Metric.IOU, 0.25), segmentation_class_groups=groups,
                               decision_metric=Metric.IOU, decision_threshold=0.5, **kw)


def _run_real(ev, x, **kw):
    import numpy as np
    p, r = np.array(x[0], dtype=np.uint8), np.array(x[1], dtype=np.uint8)
    p0, r0 = p.copy(), r.copy()
    out = ev.evaluate(p, r, **kw)
    if not (np.array_equal(p, p0) and np.array_equal(r, r0)):
        raise RuntimeError("MUTATED")
    res = {}
    for g in ("a", "b", "m"):
        d = {}
        for k in KEYS:
            try:
                d[k] = getattr(out[g][0], k)
            except Exception as e:
                d[k] = "ERR:%s" % type(e).__name__
        res[g] = d
    return res


def _deep_cfg(e, depth=0):
    """nested _yaml_repr as a plain comparable structure (the saved configuration without the YAML text layer)"""
    if depth > 6:
        return "..."
    if hasattr(type(e), "_yaml_repr") and not isinstance(e, type):
        try:
            d = type(e)._yaml_repr(e)
        except Exception as ex:
            return "ERR %s" % type(ex).__name__
        return (type(e).__name__, tuple(sorted((str(k), repr(_deep_cfg(v, depth + 1))) for k, v in d.items())))
    if isinstance(e, dict):
        return tuple(sorted((str(k), repr(_deep_cfg(v, depth + 1))) for k, v in e.items()))
    if isinstance(e, (list, tuple)):
        return tuple(repr(_deep_cfg(v, depth + 1)) for v in e)
    return str(e)


def _cfg_real(e):
    return _deep_cfg(e)


def _eq(a, b):
    if isinstance(a, float) and isinstance(b, float) and a != a and b != b:
        return True
    return a == b


def real_options(case, mode, expect):
    from . import realcommon as RC
    RC.use_serial_pool(mode == "witness")
    call = {"result_all": bool(case["call"]["result_all"])}
    for k in ("save_group_times", "log_times", "verbose"):
        call[k] = [None, False, True][case["call"][k]]
    ref = _run_real(_make_real(), XF, verbose=False)
    try:
        got = _run_real(_make_real(**case["ctor"]), XF, **call)
    except Exception as e:
        return {"match": True, "violates": True, "reason": "options_never_raise: %s: %s with constructor %s and call options %s" % (type(e).__name__, str(e)[:120], case["ctor"], call), "observed": None}
    bad = None
    for g in ref:
        for k in KEYS:
            if not _eq(got[g][k], ref[g][k]):
                bad = "options_do_not_change_metrics: %s/%s = %r, default options give %r" % (g, k, got[g][k], ref[g][k])
    return {"match": True, "violates": bad is not None, "reason": bad, "observed": None}


def real_history(case, mode, expect):
    import os
    import shutil
    import tempfile
    from panoptica import Panoptica_Evaluator, Panoptica_Aggregator, Metric
    from panoptica.utils import EdgeCaseHandler
    from . import realcommon as RC
    RC.use_serial_pool(mode == "witness")
    tmp = tempfile.mkdtemp(prefix="pv_c15_")
    bad = None
    try:
        ev0 = _make_real()
        ref = _run_real(ev0, XF, verbose=False)
        keys0 = list(ev0.resulting_metric_keys)
        ev = _make_real()
        try:
            for op in case["ops"]:
                if op == "evaluate_x1":
                    _run_real(ev, X1, verbose=False)
                elif op == "evaluate_x2":
                    _run_real(ev, X2, verbose=False)
                elif op == "evaluate_x1_save_group_times":
                    _run_real(ev, X1, verbose=False, save_group_times=True)
                elif op == "construct_other_evaluator_cldsc":
                    Panoptica_Evaluator(decision_metric=Metric.clDSC, decision_threshold=0.5)
                elif op == "construct_default_handler_and_evaluator":
                    EdgeCaseHandler()
                    Panoptica_Evaluator()
                elif op == "aggregator_log_times":
                    Panoptica_Aggregator(ev, os.path.join(tmp, "a.tsv"), log_times=True)
                elif op == "aggregator_plain":
                    Panoptica_Aggregator(ev, os.path.join(tmp, "b.tsv"))
                elif op == "read_metric_keys":
                    ev.resulting_metric_keys
                elif op == "evaluate_merge_group_only_input":
                    _run_real(ev, X3, verbose=False)
                elif op == "evaluate_empty_prediction":
                    _run_real(ev, XE, verbose=False)
                elif op == "other_evaluator_reads_its_keys":
                    Panoptica_Evaluator(global_metrics=[Metric.DSC]).resulting_metric_keys
            got = _run_real(ev, XF, verbose=False)
        except Exception as e:
            return {"match": True, "violates": True, "reason": ("no_input_mutation" if str(e) == "MUTATED" else "operations_never_raise") + ": %s: %s: %s" % (case["ops"], type(e).__name__, str(e)[:120]), "observed": None}
        for g in ref:
            for k in KEYS:
                if not _eq(got[g][k], ref[g][k]):
                    bad = "history_does_not_change_metrics: after %s %s/%s = %r, a fresh evaluator gives %r" % (case["ops"], g, k, got[g][k], ref[g][k])
        if bad is None and list(ev.resulting_metric_keys) != keys0:
            bad = "metric_keys_unchanged_through_use: after %s the advertised keys end with %s (before: %s)" % (case["ops"], list(ev.resulting_metric_keys)[-2:], keys0[-2:])
        if bad is None and list(_make_real().resulting_metric_keys) != keys0:
            bad = "fresh_evaluator_metric_keys_unchanged: after %s" % (case["ops"],)
        if bad is None:
            wide = list(Panoptica_Evaluator(global_metrics=[Metric.DSC, Metric.IOU, Metric.RVD]).resulting_metric_keys)
            if not all(k in wide for k in ("global_bin_dsc", "global_bin_iou", "global_bin_rvd")):
                bad = "advertised_keys_cover_the_requested_global_metrics: after %s an evaluator with global metrics DSC/IOU/RVD advertises %s" % (case["ops"], wide[-4:])
        if bad is None and _cfg_real(ev) != _cfg_real(ev0.__class__ and _make_real()):
            bad = "configuration_unchanged_through_use: after %s the saved configuration is %s, a fresh evaluator has %s" % (case["ops"], _cfg_real(ev), _cfg_real(_make_real()))
    finally:
        shutil.rmtree(tmp, ignore_errors=True)
    return {"match": True, "violates": bad is not None, "reason": bad, "observed": None}


def real_semantic(case, mode, expect):
    import numpy as np
    from panoptica import Panoptica_Evaluator, InputType, NaiveThresholdMatching, ConnectedComponentsInstanceApproximator
    from . import realcommon as RC
    RC.use_serial_pool(True)
    d3, d2 = np.array([[[1, 0], [0, 1]]], dtype=np.uint8), np.array([[1, 0], [0, 1]], dtype=np.uint8)
    seq = [d3, d2] if case["first_is_3d"] else [d2, d3]

    def mk():
        return Panoptica_Evaluator(expected_input=InputType.SEMANTIC, instance_approximator=ConnectedComponentsInstanceApproximator(), instance_matcher=NaiveThresholdMatching())

    def run(ev, a):
        r = ev.evaluate(a.copy(), a.copy(), verbose=False)["ungrouped"][0]
        return {k: getattr(r, k) for k in ("num_ref_instances", "num_pred_instances", "tp", "fp", "fn")}
    ref = run(mk(), seq[1])
    cfg0 = _deep_cfg(mk())
    ev = mk()
    run(ev, seq[0])
    got = run(ev, seq[1])
    bad = None
    if got != ref:
        bad = "history_does_not_change_metrics: after a %d-D input the same evaluator reports %s for the next input, a fresh one %s" % (seq[0].ndim, got, ref)
    elif _deep_cfg(ev) != cfg0:
        bad = "configuration_unchanged_through_use: %s" % (repr(_deep_cfg(ev))[:200],)
    return {"match": True, "violates": bad is not None, "reason": bad, "observed": None}


REAL = {"options": real_options, "history": real_history, "semantic": real_semantic}
