"""symnp: a model of the part of NumPy 1.26 that panoptica uses, over cells that are Python values or z3 terms.

Fixed-width integers are mathematical integers with an explicit ``mod 2^w`` wherever numpy wraps; the wrap is
omitted only when an interval pass over the term proves that the value fits (DESIGN 2.3).  float64 is modelled
as exact reals.  Every entry point is differential-tested against real numpy on concrete inputs (selftest.py)."""
from __future__ import annotations

import builtins
import itertools
import types
from fractions import Fraction

import numpy as rnp
import z3

from .sym import (interval_truth, interval, declare_bounds, reset_bounds, VAR_BOUNDS, ENG, SBool, SNum, Sym, Unsupported, Infeasible, lift, zterm, to_int, to_real, wrap_int, _INT_KINDS,
                  INT, REAL, BOOL, as_z3_bool)

BOOLDT = rnp.dtype(bool)
F64 = rnp.dtype("float64")

# ------------------------------------------------------------------------------------------------ cells
def is_conc(c):
    return not isinstance(c, z3.ExprRef)


def cz(c):
    """cell -> z3 term"""
    return c if isinstance(c, z3.ExprRef) else zterm(c)


def cnum(c):
    """cell -> numeric z3 term (bool -> 0/1)"""
    t = cz(c)
    return to_int(t) if t.sort() == BOOL else t


def ctruth(c):
    """cell -> Python bool or z3 Bool term: non-zero test"""
    if is_conc(c):
        return builtins.bool(c)
    if c.sort() == BOOL:
        return c
    return lift(c != 0)


def scalar_cell(x):
    """scalar operand (python, numpy, Sym) -> cell"""
    if isinstance(x, SBool):
        return lift(x.t)
    if isinstance(x, SNum):
        return lift(x.t)
    if isinstance(x, (builtins.bool, rnp.bool_)):
        return builtins.bool(x)
    if isinstance(x, (builtins.int, rnp.integer)):
        return builtins.int(x)
    if isinstance(x, (builtins.float, rnp.floating)):
        x = builtins.float(x)
        if x != x or x in (float("inf"), float("-inf")):
            return x
        from .sym import float_to_fraction
        return float_to_fraction(x)
    if isinstance(x, Fraction):
        return x
    raise TypeError("not a scalar: %r" % (x,))


def wrap_cell(c, dt):
    """store a numeric cell into dtype dt with numpy's wrap-around / conversion"""
    n = dt.name
    if n == "bool":
        return ctruth(c)
    if n in _INT_KINDS:
        w, signed = _INT_KINDS[n]
        lo, hi = (-(2 ** (w - 1)), 2 ** (w - 1) - 1) if signed else (0, 2 ** w - 1)
        if is_conc(c):
            if isinstance(c, builtins.bool):
                return int(c)
            if isinstance(c, Fraction):
                c = int(c)  # truncation like astype
            if isinstance(c, builtins.float):
                raise Unsupported("non-finite float to int")
            return wrap_int(c, n)
        if c.sort() == BOOL:
            return to_int(c)
        if c.sort() == REAL:
            c = z3.If(c >= 0, z3.ToInt(c), -z3.ToInt(-c))
        iv = interval(c)
        if iv is not None and lo <= iv[0] and iv[1] <= hi:
            return c
        return lift(wrap_int(c, n))
    if n.startswith("float"):
        if is_conc(c):
            if isinstance(c, builtins.bool):
                return Fraction(int(c))
            if isinstance(c, builtins.int):
                return Fraction(c)
            return c
        if c.sort() == BOOL:
            return to_int(c)
        return c
    raise Unsupported("dtype %s" % n)


def cell_to_scalar(c, dt):
    """array element -> value handed to Python code (SNum carrying the numpy dtype, or SBool/bool)"""
    if dt == BOOLDT:
        return c if is_conc(c) else SBool(c)
    if is_conc(c) and isinstance(c, builtins.float):
        return c
    return SNum(cz(c), dt)


def _kindcat(dt):
    k = dt.kind
    return 0 if k == "b" else 1 if k in "iu" else 2


def min_scalar_dtype_int(c):
    """np.min_scalar_type of an integer cell; forks on the value range when it is symbolic and not bounded"""
    if is_conc(c):
        return rnp.min_scalar_type(int(c))
    iv = interval(c)
    ranges = [(0, 255, "uint8"), (256, 65535, "uint16"), (65536, 2 ** 32 - 1, "uint32"), (2 ** 32, 2 ** 64 - 1, "uint64"),
              (-128, -1, "int8"), (-32768, -129, "int16"), (-2 ** 31, -32769, "int32"), (-2 ** 63, -2 ** 31 - 1, "int64")]
    for lo, hi, n in ranges:
        if iv is not None and (iv[1] < lo or iv[0] > hi):
            continue
        if iv is not None and lo <= iv[0] and iv[1] <= hi:
            return rnp.dtype(n)
        if ENG.branch(z3.And(c >= lo, c <= hi)):
            return rnp.dtype(n)
    raise Unsupported("integer scalar outside 64 bit")


def result_dtype_with_scalar(adt, x):
    """NumPy 1.26 value-based promotion of array dtype with a scalar operand x (python / numpy / Sym scalar)"""
    if isinstance(x, SBool) or isinstance(x, (builtins.bool, rnp.bool_)):
        return rnp.result_type(adt, BOOLDT)
    if isinstance(x, SNum):
        sdt = rnp.dtype(x.dtype) if x.dtype is not None else (F64 if x.is_real else rnp.dtype("int64"))
        cell = lift(x.t)
    elif isinstance(x, (builtins.int, rnp.integer)):
        sdt = x.dtype if isinstance(x, rnp.integer) else rnp.dtype("int64")
        cell = int(x)
    elif isinstance(x, (builtins.float, rnp.floating, Fraction)):
        sdt = x.dtype if isinstance(x, rnp.floating) else F64
        cell = None
    else:
        raise TypeError(x)
    if _kindcat(sdt) > _kindcat(adt):
        return rnp.result_type(adt, sdt)
    if sdt.kind in "iu":
        return rnp.result_type(adt, min_scalar_dtype_int(cell))
    return rnp.result_type(adt, rnp.dtype("float16"))  # float scalar with float array: value-based to smallest


# ------------------------------------------------------------------------------------------------ arrays
class Buf:
    __slots__ = ("cells", "readonly", "tag")

    def __init__(self, cells, tag=None):
        self.cells = cells
        self.readonly = False
        self.tag = tag


class WriteToProtected(Exception):
    """the code under test wrote into a caller-owned buffer (C15 purity)"""


def _prod(shape):
    p = 1
    for s in shape:
        p *= s
    return p


def _strides(shape):
    st = []
    p = 1
    for s in reversed(shape):
        st.append(p)
        p *= s
    return tuple(reversed(st))


class SArr:
    __array_priority__ = 1000
    __hash__ = None

    def __init__(self, cells, dtype, shape=None, buf=None, idx=None):
        self.dtype = rnp.dtype(dtype)
        if buf is None:
            cells = list(cells)
            buf = Buf(cells)
            idx = list(range(len(cells)))
            if shape is None:
                shape = (len(cells),)
        self.buf = buf
        self.idx = idx
        self.shape = tuple(int(s) for s in shape)
        assert _prod(self.shape) == len(self.idx), (self.shape, len(self.idx))

    # -- basics
    @property
    def cells(self):
        b = self.buf.cells
        return [b[i] for i in self.idx]

    @property
    def ndim(self):
        return len(self.shape)

    @property
    def size(self):
        return len(self.idx)

    @property
    def T(self):
        return self.transpose()

    def __len__(self):
        if not self.shape:
            raise TypeError("len() of unsized object")
        return self.shape[0]

    def __iter__(self):
        for i in range(len(self)):
            yield self[i]

    def __repr__(self):
        return "SArr(%s, %s, %s)" % (self.shape, self.dtype, self.cells)

    def protect(self, tag="caller"):
        self.buf.readonly = True
        self.buf.tag = tag
        return self

    def _write(self, k, v):
        if self.buf.readonly:
            raise WriteToProtected("write into %s buffer" % self.buf.tag)
        self.buf.cells[self.idx[k]] = v

    @classmethod
    def new(cls, cells, dtype, shape):
        return cls(cells, dtype, shape)

    def copy(self, order="C"):
        return SArr(self.cells, self.dtype, self.shape)

    def astype(self, dt, copy=True, **kw):
        dt = rnp.dtype(_np_dtype(dt))
        if not copy and dt == self.dtype:
            return self          # numpy returns the array itself when no conversion is needed
        return SArr([wrap_cell(c, dt) for c in self.cells], dt, self.shape)

    def reshape(self, *shape):
        if len(shape) == 1 and isinstance(shape[0], (tuple, list)):
            shape = tuple(shape[0])
        if -1 in shape:
            known = _prod([s for s in shape if s != -1])
            shape = tuple(self.size // known if s == -1 else s for s in shape)
        return SArr(None, self.dtype, shape, buf=self.buf, idx=list(self.idx))

    def ravel(self, order="C"):
        # the array model has no memory layout: every order enumerates the cells in index order (layout clauses are outside the model)
        return self.reshape((self.size,))

    def flatten(self):
        return SArr(self.cells, self.dtype, (self.size,))

    def transpose(self, *axes):
        if len(axes) == 1 and isinstance(axes[0], (tuple, list)):
            axes = tuple(axes[0])
        if not axes:
            axes = tuple(reversed(range(self.ndim)))
        newshape = tuple(self.shape[a] for a in axes)
        st = _strides(self.shape)
        idx = []
        for mi in itertools.product(*[range(s) for s in newshape]):
            flat = sum(mi[j] * st[axes[j]] for j in range(len(axes)))
            idx.append(self.idx[flat])
        return SArr(None, self.dtype, newshape, buf=self.buf, idx=idx)

    def tolist(self):
        """nested lists of PYTHON scalars (ints/floats/bools), as ndarray.tolist() does"""
        def py(c):
            if self.dtype == BOOLDT:
                return c if is_conc(c) else SBool(c)
            if is_conc(c) and isinstance(c, builtins.float):
                return c
            return SNum(cz(c), None)

        def rec(cells, shape):
            if not shape:
                return py(cells[0])
            if len(shape) == 1:
                return [py(c) for c in cells]
            step = _prod(shape[1:])
            return [rec(cells[i * step:(i + 1) * step], shape[1:]) for i in range(shape[0])]
        return rec(self.cells, self.shape)

    def tobytes(self, order="C"):
        return SBytes(self.cells, self.dtype)

    def item(self):
        assert self.size == 1
        return cell_to_scalar(self.cells[0], self.dtype)

    # -- indexing
    def _basic_index(self, key):
        """basic (int / slice / None-free) indexing -> (list of positions into self.idx, new shape)"""
        if not isinstance(key, tuple):
            key = (key,)
        if any(k is Ellipsis for k in key):
            n_e = self.ndim - (len(key) - 1)
            i = [j for j, k in enumerate(key) if k is Ellipsis][0]
            key = key[:i] + (slice(None),) * n_e + key[i + 1:]
        if len(key) > self.ndim:
            raise IndexError("too many indices for array")
        key = key + (slice(None),) * (self.ndim - len(key))
        ranges = []
        newshape = []
        for k, n in zip(key, self.shape):
            if isinstance(k, slice):
                start, stop, step = (None if v is None else _as_index(v) for v in (k.start, k.stop, k.step))
                r = range(*slice(start, stop, step).indices(n))
                ranges.append(list(r))
                newshape.append(len(r))
            else:
                i = _as_index(k)
                if i < -n or i >= n:
                    raise IndexError("index %d is out of bounds for axis with size %d" % (i, n))
                ranges.append([i % n])
        st = _strides(self.shape)
        pos = [sum(i * s for i, s in zip(mi, st)) for mi in itertools.product(*ranges)]
        return pos, tuple(newshape)

    def __getitem__(self, key):
        if isinstance(key, SArr):
            if key.dtype == BOOLDT:
                if key.shape != self.shape:
                    raise IndexError("boolean index did not match indexed array")
                return SMasked(self.cells, [ctruth(c) for c in key.cells], self.dtype)
            if key.dtype.kind in "iu":
                return self._take(key)
            raise IndexError("arrays used as indices must be of integer (or boolean) type")
        if isinstance(key, list):
            # 1-D integer fancy index with concrete positions (``[[0, -1]]``)
            if self.ndim != 1:
                raise Unsupported("list index on n-d array")
            n = self.shape[0]
            out = []
            for k in key:
                i = _as_index(k)
                if i < -n or i >= n:
                    raise IndexError("index %d is out of bounds for axis 0 with size %d" % (i, n))
                out.append(self.buf.cells[self.idx[i % n]])
            return SArr(out, self.dtype)
        if isinstance(key, tuple) and any(isinstance(k, (SArr, list)) for k in key):
            raise Unsupported("mixed fancy indexing")
        pos, shape = self._basic_index(key)
        if shape == () and not (isinstance(key, tuple) and len(key) == 0):
            return cell_to_scalar(self.buf.cells[self.idx[pos[0]]], self.dtype)
        return SArr(None, self.dtype, shape, buf=self.buf, idx=[self.idx[p] for p in pos])

    def _take(self, key):
        """self[int_array] for a 1-D self: symbolic indices become ITE selects with an explicit bounds decision"""
        if self.ndim != 1:
            raise Unsupported("integer-array index on n-d array")
        n = self.shape[0]
        src = self.cells
        out = []
        for k in key.cells:
            if is_conc(k):
                if k < -n or k >= n:
                    raise IndexError("index %d is out of bounds for axis 0 with size %d" % (k, n))
                out.append(src[k % n])
                continue
            iv = interval(k)
            if iv is None or iv[0] < 0 or iv[1] >= n:
                if ENG.branch(z3.Or(k < 0, k >= n)):
                    if ENG.branch(z3.Or(k < -n, k >= n)):
                        raise IndexError("index out of bounds for axis 0 with size %d" % n)
                    raise Unsupported("negative symbolic index")
            lo, hi = (0, n - 1) if iv is None else (max(0, iv[0]), min(n - 1, iv[1]))
            t = cz(src[hi])
            for j in range(hi - 1, lo - 1, -1):
                t = z3.If(k == j, cz(src[j]), t)
            out.append(lift(t))
        return SArr(out, self.dtype, key.shape)

    def __setitem__(self, key, value):
        if isinstance(key, SArr) and key.dtype == BOOLDT:
            if key.shape != self.shape:
                raise IndexError("boolean index did not match")
            mask = [ctruth(c) for c in key.cells]
            if isinstance(value, (SArr, SMasked)):
                raise Unsupported("masked assignment from array")
            v = wrap_cell(scalar_cell(value), self.dtype) if self.dtype != BOOLDT else ctruth(scalar_cell(value))
            cur = self.cells
            for i, m in enumerate(mask):
                if m is True:
                    self._write(i, v)
                elif m is False:
                    continue
                else:
                    self._write(i, lift(z3.If(m, cz(v), cz(cur[i]))))
            return
        if isinstance(key, SArr) and key.dtype.kind in "iu":
            # mapping_ar[k] = v : sequential stores
            if self.ndim != 1:
                raise Unsupported("integer-array store on n-d array")
            n = self.shape[0]
            vals = value.cells if isinstance(value, SArr) else [scalar_cell(value)] * key.size
            for k, v in zip(key.cells, vals):
                v = wrap_cell(v, self.dtype)
                if is_conc(k):
                    if k < -n or k >= n:
                        raise IndexError("index %d is out of bounds for axis 0 with size %d" % (k, n))
                    self._write(k % n, v)
                else:
                    if ENG.branch(z3.Or(k < 0, k >= n)):
                        raise IndexError("index out of bounds for axis 0 with size %d" % n)
                    cur = self.cells
                    for j in range(n):
                        self._write(j, lift(z3.If(k == j, cz(v), cz(cur[j]))))
            return
        pos, shape = self._basic_index(key)
        if isinstance(value, SArr):
            if value.shape != shape and value.size != len(pos):
                if value.size == 1:
                    vals = value.cells * len(pos)
                else:
                    raise ValueError("could not broadcast input array from shape %s into shape %s" % (value.shape, shape))
            else:
                vals = value.cells
        elif isinstance(value, rnp.ndarray):
            vals = [scalar_cell(x) for x in value.ravel().tolist()]
        else:
            vals = [scalar_cell(value)] * len(pos)
        for p, v in zip(pos, vals):
            self._write(p, wrap_cell(v, self.dtype))

    # -- elementwise machinery
    def _operand(self, o):
        """-> (cells, dtype or None for scalar, scalar-object)"""
        if isinstance(o, SArr):
            if o.shape != self.shape:
                if o.size == 1:
                    return [o.cells[0]] * self.size, o.dtype, None
                if self.size == 1:
                    raise Unsupported("broadcast of size-1 left operand")
                # trailing-dimension broadcast (e.g. (n,) with (k,n)) is not used by the repo
                raise ValueError("operands could not be broadcast together with shapes %s %s" % (self.shape, o.shape))
            return o.cells, o.dtype, None
        if isinstance(o, rnp.ndarray):
            return self._operand(from_numpy(o))
        return [scalar_cell(o)] * self.size, None, o

    def _arith(self, o, op, rev=False, inplace=False):
        try:
            oc, odt, sc = self._operand(o)
        except TypeError:
            return NotImplemented
        rdt = rnp.result_type(self.dtype, odt) if odt is not None else result_dtype_with_scalar(self.dtype, sc)
        if op == "truediv":
            rdt = F64 if rdt.kind != "f" else rdt
        out = []
        for a, b in zip(self.cells, oc):
            if rev:
                a, b = b, a
            out.append(_cell_arith(a, b, op, rdt))
        if inplace:
            if not rnp.can_cast(rdt, self.dtype, "same_kind"):
                raise TypeError("Cannot cast ufunc '%s' output from %r to %r with casting rule 'same_kind'" % (op, rdt, self.dtype))
            for i, v in enumerate(out):
                self._write(i, wrap_cell(v, self.dtype))
            return self
        return SArr(out, rdt, self.shape)

    def __add__(self, o): return self._arith(o, "add")
    def __radd__(self, o): return self._arith(o, "add", True)
    def __sub__(self, o): return self._arith(o, "sub")
    def __rsub__(self, o): return self._arith(o, "sub", True)
    def __mul__(self, o): return self._arith(o, "mul")
    def __rmul__(self, o): return self._arith(o, "mul", True)
    def __truediv__(self, o): return self._arith(o, "truediv")
    def __iadd__(self, o): return self._arith(o, "add", inplace=True)
    def __isub__(self, o): return self._arith(o, "sub", inplace=True)
    def __imul__(self, o): return self._arith(o, "mul", inplace=True)

    def _compare(self, o, op):
        try:
            oc, odt, sc = self._operand(o)
        except TypeError:
            return NotImplemented
        out = [_cell_cmp(a, b, op) for a, b in zip(self.cells, oc)]
        return SArr(out, BOOLDT, self.shape)

    def __eq__(self, o): return self._compare(o, "eq")
    def __ne__(self, o): return self._compare(o, "ne")
    def __lt__(self, o): return self._compare(o, "lt")
    def __le__(self, o): return self._compare(o, "le")
    def __gt__(self, o): return self._compare(o, "gt")
    def __ge__(self, o): return self._compare(o, "ge")

    def _logic(self, o, op):
        oc, odt, sc = self._operand(o)
        if self.dtype != BOOLDT or (odt is not None and odt != BOOLDT):
            raise Unsupported("bitwise op on integer arrays")
        return SArr([_cell_logic(ctruth(a), ctruth(b), op) for a, b in zip(self.cells, oc)], BOOLDT, self.shape)

    def __and__(self, o): return self._logic(o, "and")
    def __or__(self, o): return self._logic(o, "or")
    def __xor__(self, o): return self._logic(o, "xor")
    __rand__, __ror__, __rxor__ = __and__, __or__, __xor__

    def __invert__(self):
        if self.dtype != BOOLDT:
            raise Unsupported("~ on integer array")
        return SArr([_cell_not(ctruth(c)) for c in self.cells], BOOLDT, self.shape)

    def __neg__(self):
        return SArr([wrap_cell(lift(-cnum(c)), self.dtype) for c in self.cells], self.dtype, self.shape)

    def __bool__(self):
        if self.size != 1:
            raise ValueError("The truth value of an array with more than one element is ambiguous. Use a.any() or a.all()")
        return builtins.bool(cell_to_scalar(self.cells[0], self.dtype))

    # -- reductions
    def sum(self, axis=None, dtype=None):
        if axis is not None:
            return _reduce_axis(self, axis, "sum")
        return _sum_cells(self.cells, self.dtype)

    def any(self, axis=None):
        return any_(self, axis)

    def all(self, axis=None):
        if axis is not None:
            raise Unsupported("all(axis)")
        ts = [ctruth(c) for c in self.cells]
        if builtins.any(t is False for t in ts):
            return False
        sy = [t for t in ts if t is not True]
        return True if not sy else SBool(z3.And(sy))

    def max(self, axis=None):
        if axis is not None:
            raise Unsupported("max(axis)")
        return _extreme(self.cells, self.dtype, True)

    def min(self, axis=None):
        if axis is not None:
            raise Unsupported("min(axis)")
        return _extreme(self.cells, self.dtype, False)

    def mean(self, axis=None):
        if axis is not None:
            raise Unsupported("mean(axis)")
        if self.size == 0:
            return float("nan")
        s = _sum_cells(self.cells, F64 if self.dtype.kind == "f" else self.dtype)
        return _mk_float(s) / self.size


class _NdarrayMeta(type):
    def __instancecheck__(cls, x):
        return isinstance(x, (SArr, rnp.ndarray))


class ndarray_type(metaclass=_NdarrayMeta):
    """what the twin sees as numpy.ndarray (isinstance checks in the repo)"""


class SBytes:
    """ndarray.tobytes(): the raw content without shape; equal iff same dtype, same length and equal elements (forks when symbolic)"""

    def __init__(self, cells, dtype):
        self.cells, self.dtype = list(cells), dtype

    def __hash__(self):
        return 0

    def __eq__(self, o):
        if not isinstance(o, SBytes) or o.dtype.itemsize * len(o.cells) != self.dtype.itemsize * len(self.cells):
            return False
        if o.dtype != self.dtype:
            raise Unsupported("comparison of byte strings of different dtypes")
        eqs = [_cell_cmp(a, b, "eq") for a, b in zip(self.cells, o.cells)]
        if builtins.any(e is False for e in eqs):
            return False
        sy = [e for e in eqs if e is not True]
        return True if not sy else builtins.bool(SBool(z3.And(sy)))

    def __ne__(self, o):
        return not self.__eq__(o)

    def __len__(self):
        return self.dtype.itemsize * len(self.cells)


class SMasked:
    """result of arr[bool_mask]: a 1-D selection whose length is symbolic; consumers: unique, mean, sum, len (forks)"""

    def __init__(self, cells, mask, dtype):
        self.cells, self.mask, self.dtype = cells, mask, rnp.dtype(dtype)

    def count(self):
        return _sum_cells([m for m in self.mask], BOOLDT)

    def mean(self):
        n = self.count()
        tot = _sum_cells([_cell_ite(m, c, 0) for c, m in zip(self.cells, self.mask)], F64 if self.dtype.kind == "f" else self.dtype)
        if n == 0:
            return float("nan")   # numpy: mean of empty slice -> nan (+ RuntimeWarning)
        if ENG.concretize_div and isinstance(n, SNum) and n.concrete() is None:
            # keep the quotient linear: fork over the number of selected elements
            k = ENG.concretize(n.t, 1, len(self.cells))
            return _mk_float(tot) / k
        return _mk_float(tot) / _mk_float(n)

    def sum(self):
        return _sum_cells([_cell_ite(m, c, 0) for c, m in zip(self.cells, self.mask)], self.dtype)

    @property
    def ndim(self):
        return 1


def _cell_ite(m, a, b):
    if m is True:
        return a
    if m is False:
        return b
    ta, tb = cnum(a), cnum(b)
    if ta.sort() != tb.sort():
        ta, tb = to_real(ta), to_real(tb)
    return lift(z3.If(m, ta, tb))


def _mk_float(x):
    if isinstance(x, SNum):
        return SNum(to_real(x.t), "float64")
    if isinstance(x, SBool):
        return SNum(to_real(x.t), "float64")
    return SNum(to_real(zterm(x)), "float64")


def _as_index(k):
    if isinstance(k, builtins.int):
        return k
    if isinstance(k, SNum):
        v = k.concrete()
        if isinstance(v, builtins.int):
            return v
        iv = interval(k.t)
        if iv is not None and iv[1] - iv[0] <= 64:
            return ENG.concretize(k.t, iv[0], iv[1])
        return ENG.concretize(k.t)
    if isinstance(k, rnp.integer):
        return int(k)
    raise IndexError("only integers, slices and integer or boolean arrays are valid indices (got %r)" % (k,))


def _np_dtype(dt):
    if dt is builtins.bool or dt is bool:
        return BOOLDT
    if dt is builtins.int:
        return rnp.dtype("int64")
    if dt is builtins.float:
        return F64
    if isinstance(dt, type) and dt.__name__ in ("sym_int",):
        return rnp.dtype("int64")
    if isinstance(dt, type) and dt.__name__ in ("sym_float",):
        return F64
    return rnp.dtype(dt)


def _cell_arith(a, b, op, rdt):
    n = rdt.name
    if n == "bool":
        ta, tb = ctruth(a), ctruth(b)
        if op == "add":
            return _cell_logic(ta, tb, "or")
        if op == "mul":
            return _cell_logic(ta, tb, "and")
        raise TypeError("numpy boolean subtract, the `-` operator, is not supported")
    for v in (a, b):
        if is_conc(v) and isinstance(v, builtins.float):
            raise Unsupported("non-finite float cell in arithmetic")
    if is_conc(a) and is_conc(b):
        x, y = (int(a) if isinstance(a, builtins.bool) else a), (int(b) if isinstance(b, builtins.bool) else b)
        if op == "add":
            r = x + y
        elif op == "sub":
            r = x - y
        elif op == "mul":
            r = x * y
        elif op == "truediv":
            if y == 0:
                return float("nan") if x == 0 else (float("inf") if x > 0 else float("-inf"))
            r = Fraction(x) / Fraction(y)
        else:
            raise Unsupported(op)
        return wrap_cell(r, rdt)
    ta, tb = cnum(a), cnum(b)
    if n.startswith("float") or ta.sort() != tb.sort():
        if ta.sort() == REAL or tb.sort() == REAL or op == "truediv":
            ta, tb = to_real(ta), to_real(tb)
    if op == "add":
        r = ta + tb
    elif op == "sub":
        r = ta - tb
    elif op == "mul":
        r = ta * tb
    elif op == "truediv":
        if ENG.branch(z3.simplify(tb == 0)):
            raise Unsupported("symbolic array division by zero")
        r = ta / tb
    else:
        raise Unsupported(op)
    return wrap_cell(lift(r), rdt)


def _cell_cmp(a, b, op):
    from .sym import _OPS
    if is_conc(a) and is_conc(b):
        x, y = a, b
        return {"eq": x == y, "ne": x != y, "lt": x < y, "le": x <= y, "gt": x > y, "ge": x >= y}[op]
    for v in (a, b):
        if is_conc(v) and isinstance(v, builtins.float):
            raise Unsupported("non-finite float cell in comparison")
    ia = (a, a) if (is_conc(a) and isinstance(a, builtins.int)) else (interval(a) if not is_conc(a) else None)
    ib = (b, b) if (is_conc(b) and isinstance(b, builtins.int)) else (interval(b) if not is_conc(b) else None)
    if ia is not None and ib is not None:
        r = _iv_cmp(ia, ib, op)
        if r is not None:
            return r
    ta, tb = cz(a), cz(b)
    if ta.sort() == BOOL and tb.sort() == BOOL and op in ("eq", "ne"):
        return lift(_OPS[op](ta, tb))
    ta, tb = (to_int(ta) if ta.sort() == BOOL else ta), (to_int(tb) if tb.sort() == BOOL else tb)
    if ta.sort() != tb.sort():
        ta, tb = to_real(ta), to_real(tb)
    r = lift(_OPS[op](ta, tb))
    if isinstance(r, z3.ExprRef):
        it = interval_truth(r)
        if it is not None:
            return it
    return r


def _iv_cmp(a, b, op):
    if op == "lt":
        return True if a[1] < b[0] else (False if a[0] >= b[1] else None)
    if op == "le":
        return True if a[1] <= b[0] else (False if a[0] > b[1] else None)
    if op == "gt":
        return _iv_cmp(b, a, "lt")
    if op == "ge":
        return _iv_cmp(b, a, "le")
    disjoint = a[1] < b[0] or b[1] < a[0]
    same = a[0] == a[1] == b[0] == b[1]
    if op == "eq":
        return False if disjoint else (True if same else None)
    return True if disjoint else (False if same else None)


def _cell_logic(a, b, op):
    if a is True or a is False:
        if b is True or b is False:
            return {"and": a and b, "or": a or b, "xor": a != b}[op]
        a, b = b, a
    if b is True or b is False:
        if op == "and":
            return a if b else False
        if op == "or":
            return True if b else a
        return lift(z3.Not(a)) if b else a
    return lift({"and": z3.And, "or": z3.Or, "xor": z3.Xor}[op](a, b))


def _cell_not(a):
    if a is True or a is False:
        return not a
    return lift(z3.Not(a))


def _sum_cells(cells, dt):
    """np.sum over all cells: bool/int arrays accumulate in int64/uint64 (no wrap modelled: sizes are tiny)"""
    conc = 0
    terms = []
    real = False
    for c in cells:
        if is_conc(c):
            if isinstance(c, builtins.float):
                raise Unsupported("non-finite in sum")
            conc += int(c) if isinstance(c, builtins.bool) else c
        else:
            t = cnum(c)
            if t.sort() == REAL:
                real = True
            terms.append(t)
    if dt.kind == "f":
        rdt = F64
    elif dt.kind == "u":
        rdt = rnp.dtype("uint64")
    else:
        rdt = rnp.dtype("int64")
    if not terms:
        if isinstance(conc, Fraction) or rdt == F64:
            return SNum(zterm(Fraction(conc)), F64)
        return SNum(z3.IntVal(conc), rdt)
    if real:
        terms = [to_real(t) for t in terms]
    tot = z3.Sum(terms) if len(terms) > 1 else terms[0]
    if conc != 0:
        tot = tot + zterm(conc)
    if rdt == F64:
        tot = to_real(tot)
    return SNum(z3.simplify(tot), rdt)


def _extreme(cells, dt, want_max):
    if not cells:
        raise ValueError("zero-size array to reduction operation %s which has no identity" % ("maximum" if want_max else "minimum"))
    if builtins.all(is_conc(c) for c in cells):
        v = builtins.max(cells) if want_max else builtins.min(cells)
        return cell_to_scalar(v, dt)
    m = cnum(cells[0])
    for c in cells[1:]:
        t = cnum(c)
        if t.sort() != m.sort():
            t, m = to_real(t), to_real(m)
        m = z3.If(t > m, t, m) if want_max else z3.If(t < m, t, m)
    return cell_to_scalar(lift(m), dt)


def _reduce_axis(a, axis, kind):
    if isinstance(axis, builtins.int):
        axis = (axis,)
    axis = tuple(ax % a.ndim for ax in axis) if a.ndim else ()
    keep = [d for d in range(a.ndim) if d not in axis]
    outshape = tuple(a.shape[d] for d in keep)
    st = _strides(a.shape)
    cells = a.cells
    out = []
    for mi in itertools.product(*[range(a.shape[d]) for d in keep]):
        group = []
        for ri in itertools.product(*[range(a.shape[d]) for d in axis]):
            flat = sum(i * st[d] for i, d in zip(mi, keep)) + sum(i * st[d] for i, d in zip(ri, axis))
            group.append(cells[flat])
        if kind == "any":
            ts = [ctruth(c) for c in group]
            if builtins.any(t is True for t in ts):
                out.append(True)
            else:
                sy = [t for t in ts if t is not False]
                out.append(False if not sy else lift(z3.Or(sy)))
        elif kind == "sum":
            out.append(lift(_sum_cells(group, a.dtype).t))
        else:
            raise Unsupported(kind)
    if kind == "any":
        return SArr(out, BOOLDT, outshape)
    rdt = F64 if a.dtype.kind == "f" else (rnp.dtype("uint64") if a.dtype.kind == "u" else rnp.dtype("int64"))
    return SArr(out, rdt, outshape)


def _no_options(kw, fn, ignorable=()):
    """model functions must not silently ignore an option the modelled routine would honour"""
    for k_, v_ in kw.items():
        if k_ in ignorable or v_ is None or v_ is False:
            continue
        raise Unsupported("numpy.%s(%s=...) is not modelled" % (fn, k_))


def any_(a=None, axis=None, **kw):
    _no_options({k_: v_ for k_, v_ in kw.items() if k_ != "a"}, "any", ("keepdims",) if not kw.get("keepdims") else ())
    if a is None:
        a = kw.get("a")
    if isinstance(a, SArr):
        if axis is not None:
            return _reduce_axis(a, axis, "any")
        ts = [ctruth(c) for c in a.cells]
        if builtins.any(t is True for t in ts):
            return True
        sy = [t for t in ts if t is not False]
        return False if not sy else SBool(z3.Or(sy))
    if isinstance(a, rnp.ndarray):
        return rnp.any(a, axis=axis)
    r = False
    for x in a:
        if x:
            r = True
    return r


def from_numpy(a):
    a = rnp.asarray(a)
    if a.dtype == BOOLDT:
        cells = [builtins.bool(x) for x in a.ravel().tolist()]
    elif a.dtype.kind in "iu":
        cells = [int(x) for x in a.ravel().tolist()]
    elif a.dtype.kind == "f":
        cells = [scalar_cell(float(x)) for x in a.ravel().tolist()]
    else:
        raise Unsupported("dtype %s" % a.dtype)
    return SArr(cells, a.dtype, a.shape)


def to_numpy(a, model=None):
    """SArr -> real ndarray, evaluating symbolic cells under a model"""
    vals = []
    for c in a.cells:
        if is_conc(c):
            vals.append(c)
        else:
            from .sym import py_value
            vals.append(py_value(model.eval(c, model_completion=True)))
    if a.dtype.kind == "f":
        vals = [float(v) for v in vals]
    return rnp.array(vals, dtype=a.dtype).reshape(a.shape)


# ------------------------------------------------------------------------------------------------ module functions
SMALL_DOMAIN = 16    # np.unique enumerates presence per value when all cells lie in an interval this narrow


def unique(a, return_counts=False, **kw):
    if kw or return_counts:
        raise Unsupported("np.unique options")
    if isinstance(a, SMasked):
        cells, mask, dt = a.cells, a.mask, a.dtype
    elif isinstance(a, SArr):
        cells, mask, dt = a.cells, [True] * a.size, a.dtype
    elif isinstance(a, (list, tuple)):
        return unique(array(a))
    else:
        return from_numpy(rnp.unique(a))
    key = ("unique", dt.name, tuple(c if is_conc(c) else ("z", c.get_id()) for c in cells),
           tuple(m if is_conc(m) else ("z", m.get_id()) for m in mask))
    hit = ENG.path_cache.get(key)
    if hit is not None:
        return SArr(list(hit[1]), dt, (len(hit[1]),))
    res = _unique(cells, mask, dt)
    ENG.path_cache[key] = ((cells, mask), res.cells)   # keeps the terms alive so that ids stay unique
    return res


def _unique(cells, mask, dt):
    live = [(c, m) for c, m in zip(cells, mask) if m is not False]
    if dt == BOOLDT:
        live = [(int(c) if is_conc(c) else to_int(c), m) for c, m in live]
    ivs = [interval(c) for c, m in live]
    out = []
    if live and builtins.all(iv is not None for iv in ivs):
        lo, hi = builtins.min(iv[0] for iv in ivs), builtins.max(iv[1] for iv in ivs)
        if hi - lo <= SMALL_DOMAIN:
            for v in range(lo, hi + 1):
                conds = []
                sure = False
                for (c, m), iv in zip(live, ivs):
                    if iv[0] > v or iv[1] < v:
                        continue
                    e = True if (is_conc(c)) else lift(c == v)   # concrete cell: iv == (v, v)
                    both = _cell_logic(m, e, "and")
                    if both is True:
                        sure = True
                        break
                    if both is not False:
                        conds.append(both)
                if sure or (conds and ENG.branch(z3.Or(conds) if len(conds) > 1 else conds[0])):
                    out.append(v)
            return SArr(out, dt if dt != BOOLDT else BOOLDT, (len(out),))
    # general case: insertion sort with symbolic comparisons (forks on the order/equality pattern)
    reps = []
    for c, m in live:
        if m is not True:
            if not ENG.branch(m):
                continue
        t = cnum(c)
        placed = False
        for i, r in enumerate(reps):
            if SBool(lift_b(t == r)):
                placed = True
                break
            if SBool(lift_b(t < r)):
                reps.insert(i, t)
                placed = True
                break
        if not placed:
            reps.append(t)
    return SArr([lift(r) for r in reps], dt, (len(reps),))


def lift_b(t):
    return z3.simplify(t)


def count_nonzero(a):
    ts = [ctruth(c) for c in a.cells]
    return _sum_cells(ts, BOOLDT)


class _FirstLast:
    """np.where(mask_1d)[0] restricted to what the repo does with it: ``[[0, -1]]``"""

    def __init__(self, first, last):
        self.first, self.last = first, last

    def __getitem__(self, k):
        if k == [0, -1]:
            return SArr([self.first, self.last], "int64")
        if k == 0:
            return SNum(z3.IntVal(self.first), "int64")
        if k == -1:
            return SNum(z3.IntVal(self.last), "int64")
        raise Unsupported("np.where result used with index %r" % (k,))


def where(cond, *args):
    if args:
        raise Unsupported("np.where with 3 arguments")
    if not isinstance(cond, SArr) or cond.ndim != 1:
        raise Unsupported("np.where on non-1-D")
    ts = [ctruth(c) for c in cond.cells]
    n = len(ts)
    if builtins.all(t is True or t is False for t in ts):
        idx = [i for i, t in enumerate(ts) if t]
        return (SArr(idx, "int64"),)
    for i in range(n):
        pre = [_cell_not(t) for t in ts[:i]] + [ts[i]]
        if builtins.any(p is False for p in pre):
            continue
        sy = [p for p in pre if p is not True]
        if not sy or ENG.branch(z3.And(sy) if len(sy) > 1 else sy[0]):
            for j in range(n - 1, i - 1, -1):
                post = [_cell_not(t) for t in ts[j + 1:]] + [ts[j]]
                if builtins.any(p is False for p in post):
                    continue
                sy2 = [p for p in post if p is not True]
                if not sy2 or ENG.branch(z3.And(sy2) if len(sy2) > 1 else sy2[0]):
                    return (_FirstLast(i, j),)
            raise Infeasible()
    # all false: empty result
    return (SArr([], "int64"),)


def logical_and(a, b):
    a, b = _asarr(a), _asarr(b)
    return SArr([_cell_logic(ctruth(x), ctruth(y), "and") for x, y in zip(a.cells, _bc(a, b))], BOOLDT, a.shape)


def logical_or(a, b):
    a, b = _asarr(a), _asarr(b)
    return SArr([_cell_logic(ctruth(x), ctruth(y), "or") for x, y in zip(a.cells, _bc(a, b))], BOOLDT, a.shape)


def _bc(a, b):
    if a.shape != b.shape:
        raise ValueError("operands could not be broadcast together with shapes %s %s" % (a.shape, b.shape))
    return b.cells


def _asarr(a):
    if isinstance(a, SArr):
        return a
    if isinstance(a, rnp.ndarray):
        return from_numpy(a)
    return array(a)


def sum_(a, axis=None):
    if isinstance(a, (SArr, SMasked)):
        return a.sum(axis) if isinstance(a, SArr) else a.sum()
    if isinstance(a, rnp.ndarray):
        return rnp.sum(a, axis=axis)
    a = list(a)
    if not a:
        return 0.0
    if builtins.any(_is_nan(x) for x in a):
        return float("nan")
    tot = a[0]
    for x in a[1:]:
        tot = tot + x
    return tot


def isin(element, test_elements, invert=False, assume_unique=False, **kw):
    _no_options(kw, "isin")
    a = _asarr(element)
    if isinstance(test_elements, SArr):
        vals = test_elements.cells
    elif isinstance(test_elements, (list, tuple, set)):
        vals = [scalar_cell(v) for v in test_elements]
    else:
        vals = [scalar_cell(test_elements)]
    if assume_unique and not (len(vals) < 10 * max(1, len(a.cells)) ** 0.145):
        # NumPy 1.26 in1d: below this size it compares element by element and the flag has no effect; above it a sort-based
        # method may be chosen whose result for non-unique input is unspecified
        raise Unsupported("numpy.isin(assume_unique=True) beyond the element-wise regime")
    out = []
    for c in a.cells:
        hits = [_cell_cmp(c, v, "eq") for v in vals]
        if builtins.any(h is True for h in hits):
            r = True
        else:
            sy = [h for h in hits if h is not False]
            r = False if not sy else lift(z3.Or(sy))
        out.append(_cell_not(r) if invert else r)
    return SArr(out, BOOLDT, a.shape)


def _numlist(l):
    if isinstance(l, SArr):
        return [cell_to_scalar(c, l.dtype) for c in l.cells]
    return list(l)


def _is_nan(x):
    return isinstance(x, builtins.float) and x != x


def _has_inf(v):
    return builtins.any(isinstance(x, builtins.float) and x in (float("inf"), float("-inf")) for x in v)


def average(l, axis=None, weights=None, **kw):
    _no_options(kw, "average")
    if axis is not None:
        raise Unsupported("numpy.average(axis=...)")
    v = _numlist(l)
    if weights is not None:
        w = _numlist(weights)
        if len(w) != len(v):
            raise TypeError("Length of weights not compatible with specified axis.")
        if len(v) == 0:
            raise ZeroDivisionError("Weights sum to zero, can't be normalized")
        if builtins.any(_is_nan(x) for x in v) or _has_inf(v):
            raise Unsupported("non-finite value in a weighted average")
        tot, wt = None, None
        for x, y in zip(v, w):
            term = _mk_float(x) * y
            tot = term if tot is None else tot + term
            wt = y if wt is None else wt + y
        if not isinstance(wt, Sym) and wt == 0:
            raise ZeroDivisionError("Weights sum to zero, can't be normalized")
        return tot / wt
    if len(v) == 0:
        return float("nan")   # numpy: mean of empty slice
    if builtins.any(_is_nan(x) for x in v):
        return float("nan")
    if _has_inf(v):
        if builtins.all(not isinstance(x, Sym) for x in v):
            return builtins.float(rnp.mean([builtins.float(x) for x in v]))
        raise Unsupported("infinite value in a symbolic list statistic")
    tot = v[0]
    for x in v[1:]:
        tot = tot + x
    return _mk_float(tot) / len(v)


mean = average


def nanmean(l, **kw):
    _no_options(kw, "nanmean")
    v = [x for x in _numlist(l) if not _is_nan(x)]
    return average(v)


def nanstd(l, axis=None, ddof=0, **kw):
    _no_options(kw, "nanstd")
    v = [x for x in _numlist(l) if not _is_nan(x)]
    return std(v, axis=axis, ddof=ddof)


def nanmin(l, **kw):
    _no_options(kw, "nanmin")
    return _minmax_list([x for x in _numlist(l) if not _is_nan(x)], False)


def nanmax(l, **kw):
    _no_options(kw, "nanmax")
    return _minmax_list([x for x in _numlist(l) if not _is_nan(x)], True)


def nansum(l, **kw):
    _no_options(kw, "nansum")
    return sum_([x for x in _numlist(l) if not _is_nan(x)])


def _reject_nonfinite(v):
    for x in v:
        if isinstance(x, builtins.float) and (x != x or x in (float("inf"), float("-inf"))):
            raise Unsupported("non-finite value in list statistic")


def std(l, axis=None, ddof=0, **kw):
    """np.std of a list: trusted numpy routine.  The result is a fresh non-negative real; the list and ddof it was
    called with are recorded (ENG.path_cache['std']) so that harnesses can state 'the standard deviation reported is the
    population standard deviation of exactly this list' as an obligation about the arguments (no nonlinear constraint)."""
    if kw or axis is not None:
        raise Unsupported("np.std options %r" % (kw,))
    v = _numlist(l)
    if len(v) == 0:
        return float("nan")
    if builtins.any(_is_nan(x) for x in v):
        return float("nan")
    _reject_nonfinite(v)
    if builtins.all(not isinstance(x, Sym) for x in v):
        return builtins.float(rnp.std([builtins.float(x) for x in v], ddof=ddof))
    args = [z3.simplify(to_real(zterm(x)) if not isinstance(x, Sym) else to_real(x.t)) for x in v]
    # np.std is a function: the same list (structurally) yields the same value
    from .sym import shash
    key = (tuple(sorted(shash(a) for a in args)), ddof)     # np.std is symmetric in its arguments
    memo = ENG.path_cache.setdefault("std_by_args", {})
    if key in memo:
        return SNum(memo[key], "float64")
    s = z3.Real(ENG.fresh_name("std"))
    ENG.assume(s >= 0)
    memo[key] = s
    ENG.path_cache.setdefault("std", {})[str(s)] = (args, ddof)
    return SNum(s, "float64")


def _minmax_list(l, want_max):
    v = _numlist(l)
    if len(v) == 0:
        raise ValueError("zero-size array to reduction operation")
    if builtins.any(_is_nan(x) for x in v):
        return float("nan")
    _reject_nonfinite(v)
    if builtins.all(not isinstance(x, Sym) for x in v):
        return builtins.max(v) if want_max else builtins.min(v)
    # symbolic: one ITE chain instead of forking on the order of the values
    ts = [x.t if isinstance(x, Sym) else zterm(x) for x in v]
    if builtins.any(t.sort() == REAL for t in ts):
        ts = [to_real(t) for t in ts]
    m = ts[0]
    for t in ts[1:]:
        m = z3.If(t > m, t, m) if want_max else z3.If(t < m, t, m)
    dts = [x.dtype for x in v if isinstance(x, SNum) and x.dtype is not None]
    return SNum(z3.simplify(m), dts[0] if dts else None)


def min_(l, **kw):
    _no_options(kw, "min")
    if isinstance(l, SArr):
        return l.min()
    if isinstance(l, (SNum, builtins.int, builtins.float, rnp.number)):
        return l
    return _minmax_list(l, False)


def max_(l, **kw):
    _no_options(kw, "max")
    if isinstance(l, SArr):
        return l.max()
    if isinstance(l, (SNum, builtins.int, builtins.float, rnp.number)):
        return l
    return _minmax_list(l, True)


def all_(a, **kw):
    _no_options(kw, "all")
    if isinstance(a, SArr):
        return a.all()
    r = True
    for x in a:
        if not x:
            r = False
    return r


def isnan(x):
    if isinstance(x, Sym):
        return False
    if isinstance(x, SArr):
        return SArr([(is_conc(c) and isinstance(c, builtins.float) and c != c) for c in x.cells], BOOLDT, x.shape)
    return rnp.isnan(x)


def array(x, dtype=None, copy=True, **kw):
    _no_options(kw, "array", ("order", "subok"))
    if isinstance(x, SArr):
        if not copy:
            return x.astype(dtype, copy=False) if dtype is not None else x       # numpy: no copy unless one is needed
        return x.astype(dtype) if dtype is not None else x.copy()
    if isinstance(x, rnp.ndarray):
        return from_numpy(x if dtype is None else x.astype(dtype))

    def shape_of(v):
        if isinstance(v, (list, tuple)):
            return (len(v),) + (shape_of(v[0]) if len(v) else ())
        if isinstance(v, SArr):
            return v.shape
        return ()

    def flat(v):
        if isinstance(v, (list, tuple)):
            for e in v:
                yield from flat(e)
        elif isinstance(v, SArr):
            for c in v.cells:
                yield cell_to_scalar(c, v.dtype)
        else:
            yield v
    shp = shape_of(x)
    items = list(flat(x))
    if dtype is None:
        dts = []
        for it in items:
            if isinstance(it, SNum):
                dts.append(rnp.dtype(it.dtype) if it.dtype is not None else (F64 if it.is_real else rnp.dtype("int64")))
            elif isinstance(it, (SBool, builtins.bool)):
                dts.append(BOOLDT)
            elif isinstance(it, builtins.int):
                dts.append(rnp.dtype("int64"))
            else:
                dts.append(rnp.asarray(it).dtype)
        dt = rnp.result_type(*dts) if dts else F64
    else:
        dt = rnp.dtype(_np_dtype(dtype))
    # NumPy 1.26: out-of-range Python ints wrap silently (DeprecationWarning) when a dtype is given
    return SArr([wrap_cell(scalar_cell(it), dt) for it in items], dt, shp)


def asarray(x, dtype=None, **kw):
    _no_options(kw, "asarray", ("order",))
    if isinstance(x, SArr) and (dtype is None or rnp.dtype(_np_dtype(dtype)) == x.dtype):
        return x
    return array(x, dtype)


def take(a, indices, axis=None, out=None, mode="raise"):
    if axis is not None or mode != "raise":
        raise Unsupported("np.take options")
    r = a[indices] if isinstance(indices, SArr) else a[_asarr(indices)]
    if out is not None:
        if out.size != r.size:
            raise ValueError("output array does not match result of ndarray.take")
        for i, v in enumerate(r.cells):
            out._write(i, wrap_cell(v, out.dtype))
        return out
    return r


def roll(a, shift, axis=None):
    a = _asarr(a)
    if axis is None:
        flat = a.cells
        k = _as_index(shift) % len(flat) if flat else 0
        return SArr(flat[-k:] + flat[:-k] if k else list(flat), a.dtype, a.shape)
    ax = axis % a.ndim
    k = _as_index(shift) % a.shape[ax]
    cs = list(itertools.product(*[range(s) for s in a.shape]))
    pos = {c: i for i, c in enumerate(cs)}
    cells = a.cells
    out = []
    for c in cs:
        src = tuple(((x - k) % a.shape[ax]) if d == ax else x for d, x in enumerate(c))
        out.append(cells[pos[src]])
    return SArr(out, a.dtype, a.shape)


def squeeze(a, axis=None):
    if axis is not None:
        raise Unsupported("squeeze(axis)")
    a = _asarr(a)
    return a.reshape(tuple(s for s in a.shape if s != 1))


def atleast_1d(a):
    if isinstance(a, SArr):
        return a if a.ndim >= 1 else a.reshape((1,))
    return array([a])


def _shape_arg(shape):
    if isinstance(shape, (builtins.int, SNum, rnp.integer)):
        return (_as_index(shape),)
    return tuple(_as_index(s) for s in shape)


def zeros(shape, dtype=float, **kw):
    _no_options(kw, "zeros", ("order",))
    dt = rnp.dtype(_np_dtype(dtype))
    shape = _shape_arg(shape)
    z = False if dt == BOOLDT else (Fraction(0) if dt.kind == "f" else 0)
    return SArr([z] * _prod(shape), dt, shape)


def ones(shape, dtype=float, **kw):
    _no_options(kw, "ones", ("order",))
    dt = rnp.dtype(_np_dtype(dtype))
    shape = _shape_arg(shape)
    o = True if dt == BOOLDT else (Fraction(1) if dt.kind == "f" else 1)
    return SArr([o] * _prod(shape), dt, shape)


def zeros_like(a, dtype=None):
    return zeros(a.shape, dtype or a.dtype)


def ones_like(a, dtype=None):
    return ones(a.shape, dtype or a.dtype)


class SLazyArr:
    """np.arange(n, dtype) with a symbolic, unbounded length n: element i is wrap(i, dtype) unless overwritten by one of
    the recorded stores; every access carries an explicit in-bounds decision (IndexError path)."""

    def __init__(self, n, dtype):
        self.n = n
        self.dtype = rnp.dtype(dtype)
        self.stores = []
        self.ndim = 1

    @property
    def shape(self):
        raise Unsupported("shape of a symbolic-length array")

    def _bounds(self, k):
        k = cnum(k)
        if ENG.branch(z3.simplify(z3.Or(k < 0, k >= self.n))):
            if ENG.branch(z3.simplify(z3.Or(k < -self.n, k >= self.n))):
                raise IndexError("index out of bounds for axis 0 with symbolic size")
            raise Unsupported("negative symbolic index")
        return k

    def __setitem__(self, key, value):
        if not (isinstance(key, SArr) and key.dtype.kind in "iu"):
            raise Unsupported("store into symbolic-length array with %r" % (key,))
        vals = value.cells if isinstance(value, SArr) else [scalar_cell(value)] * key.size
        for k, v in zip(key.cells, vals):
            k = self._bounds(k)
            self.stores.append((k, cnum(wrap_cell(v, self.dtype))))

    def __getitem__(self, key):
        if not (isinstance(key, SArr) and key.dtype.kind in "iu"):
            raise Unsupported("read of symbolic-length array with %r" % (key,))
        out = []
        for k in key.cells:
            k = self._bounds(k)
            t = wrap_cell(k, self.dtype)
            t = cnum(t)
            for idx, val in self.stores:
                t = z3.If(k == idx, val, t)
            out.append(lift(t))
        return SArr(out, self.dtype, key.shape)


def arange(n, dtype=None, **kw):
    if isinstance(n, SNum) and n.is_real:
        c = n.concrete()
        if c is None:
            ni = z3.ToInt(n.t)
            if not ENG.branch(z3.simplify(z3.ToReal(ni) == n.t)):
                raise Unsupported("arange with non-integral symbolic float length")
            n = SNum(ni)
        else:
            n = int(-(-c // 1))
    if isinstance(n, SNum) and n.concrete() is None:
        iv = interval(n.t)
        if iv is None or iv[1] - iv[0] > 64:
            return SLazyArr(n.t, rnp.dtype(_np_dtype(dtype)) if dtype is not None else rnp.dtype("int64"))
    k = _as_index(n) if not isinstance(n, builtins.int) else n
    dt = rnp.dtype(_np_dtype(dtype)) if dtype is not None else rnp.dtype("int64")
    return SArr([wrap_cell(i, dt) for i in range(builtins.max(k, 0))], dt)


def indices(dimensions, dtype=int, **kw):
    _no_options(kw, "indices")
    dims = tuple(dimensions)
    dt = rnp.dtype(_np_dtype(dtype))
    return from_numpy(rnp.indices(dims, dtype=dt))


def isclose(a, b, rtol=1e-05, atol=1e-08, equal_nan=False):
    """numpy.isclose for scalars: |a - b| <= atol + rtol * |b| (NumPy's documented, asymmetric formula), exact over the reals"""
    if isinstance(a, SArr) or isinstance(b, SArr):
        raise Unsupported("numpy.isclose on arrays is not modelled")
    from fractions import Fraction as _Fr
    for v in (a, b):
        if isinstance(v, float) and (v != v or v in (float("inf"), float("-inf"))):
            return rnp.isclose(float(a) if not isinstance(a, SNum) else 0.0, float(b) if not isinstance(b, SNum) else 0.0, rtol, atol, equal_nan) if not (isinstance(a, SNum) or isinstance(b, SNum)) else False
    if not isinstance(a, SNum) and not isinstance(b, SNum):
        return builtins.bool(rnp.isclose(a, b, rtol, atol, equal_nan))

    def real(x):
        if isinstance(x, SNum):
            return z3.ToReal(x.t) if x.t.sort() == z3.IntSort() else x.t
        f = _Fr(x)
        return z3.RealVal(f)
    ra, rb = real(a), real(b)
    d = ra - rb
    ad = z3.If(d >= 0, d, -d)
    ab = z3.If(rb >= 0, rb, -rb)
    return SBool(ad <= real(float(atol)) + real(float(rtol)) * ab)


def sqrt(a):
    if isinstance(a, SArr):
        return SArr([_sqrt_cell(c) for c in a.cells], F64, a.shape)
    c = scalar_cell(a)
    return cell_to_scalar(_sqrt_cell(c), F64)


SQRT_CONSTS = {}


def sqrt_const(k):
    """real constant standing for sqrt(k), k a non-negative integer (linear bounds + monotonicity, DESIGN 2.3)"""
    r = int(k ** 0.5)
    while r * r > k:
        r -= 1
    while (r + 1) * (r + 1) <= k:
        r += 1
    if r * r == k:
        return z3.RealVal(r)
    if k not in SQRT_CONSTS:
        SQRT_CONSTS[k] = z3.Real("sqrt_%d" % k)
    return SQRT_CONSTS[k]


def sqrt_axioms(kmax):
    """linear facts tying the sqrt constants together: rational bounds (1e-9) for non-squares and strict monotonicity"""
    from decimal import Decimal, getcontext
    getcontext().prec = 40
    ax = []
    prev = None
    for k in range(0, kmax + 1):
        s = sqrt_const(k)
        if not z3.is_rational_value(s):
            lo = Fraction(int(Decimal(k).sqrt() * 10 ** 9), 10 ** 9)
            ax.append(z3.And(s > z3.RealVal(lo), s < z3.RealVal(lo + Fraction(1, 10 ** 9))))
        if prev is not None:
            ax.append(prev < s)
        prev = s
    return ax


SQRT_MAX = 64


def _sqrt_cell(c):
    if is_conc(c):
        if isinstance(c, builtins.float):
            raise Unsupported("sqrt of non-finite")
        f = Fraction(c)
        if f.denominator == 1 and f >= 0:
            s = sqrt_const(int(f))
            return lift(s)
        raise Unsupported("sqrt of non-integer")
    t = c
    if t.sort() == REAL:
        ti = z3.ToInt(t)
    else:
        ti = t
    iv = interval(ti) if t.sort() == INT else None
    hi = SQRT_MAX if iv is None else builtins.min(iv[1], SQRT_MAX)
    lo = 0 if iv is None else builtins.max(iv[0], 0)
    if iv is None or iv[1] > SQRT_MAX:
        if ENG.branch(z3.Or(ti < 0, ti > SQRT_MAX)):
            raise Unsupported("sqrt argument outside modelled range")
    r = sqrt_const(hi)
    for k in range(hi - 1, lo - 1, -1):
        r = z3.If(ti == k, sqrt_const(k), r)
    return lift(r)


def multiply(a, b, out=None):
    r = a * b
    if out is not None:
        for i, v in enumerate(r.cells):
            out._write(i, wrap_cell(v, out.dtype))
        return out
    return r


class _Add:
    @staticmethod
    def reduce(a, axis=0):
        return _reduce_axis(a, axis, "sum").astype(a.dtype) if a.dtype.kind == "f" else _reduce_axis(a, axis, "sum")

    def __call__(self, a, b):
        return a + b


def concatenate(arrs, axis=0):
    arrs = [_asarr(a) for a in arrs]
    if builtins.any(a.ndim != 1 for a in arrs):
        raise Unsupported("concatenate n-d")
    dt = rnp.result_type(*[a.dtype for a in arrs])
    cells = []
    for a in arrs:
        cells += [wrap_cell(c, dt) for c in a.cells]
    return SArr(cells, dt)


def issubdtype(a, b):
    def conv(x):
        if isinstance(x, type) and x.__name__ == "sym_int":
            return builtins.int
        if isinstance(x, type) and x.__name__ == "sym_float":
            return builtins.float
        return x
    return rnp.issubdtype(conv(a), conv(b))


def array_equal(a, b):
    a, b = _asarr(a), _asarr(b)
    if a.shape != b.shape:
        return False
    return (a == b).all()


def build_module():
    m = types.ModuleType("numpy")
    m.__dict__["__symnp__"] = True
    for name in ("uint8", "uint16", "uint32", "uint64", "int8", "int16", "int32", "int64", "float64", "float32", "bool_",
                 "unsignedinteger", "signedinteger", "integer", "floating", "number", "generic", "nan", "inf", "pi",
                 "dtype", "iinfo", "finfo", "result_type", "min_scalar_type", "can_cast", "newaxis", "errstate", "seterr"):
        setattr(m, name, getattr(rnp, name))
    m.uint = rnp.uint
    m.ndarray = ndarray_type
    m.issubdtype = issubdtype
    m.unique = unique
    m.any = any_
    m.all = all_
    m.where = where
    m.count_nonzero = count_nonzero
    m.logical_and = logical_and
    m.logical_or = logical_or
    m.sum = sum_
    m.isin = isin
    m.average = average
    m.mean = mean
    m.std = std
    m.nanmean = nanmean
    m.nanstd = nanstd
    m.nanmin = nanmin
    m.nanmax = nanmax
    m.nansum = nansum
    m.median = lambda *a, **k: (_ for _ in ()).throw(Unsupported("numpy.median"))
    m.min = min_
    m.max = max_
    m.isnan = isnan
    m.array = array
    m.asarray = asarray
    m.copy = lambda a, order="K", subok=False: a.copy() if hasattr(a, "copy") else array(a)
    m.atleast_1d = atleast_1d
    m.squeeze = squeeze
    m.take = take
    m.roll = roll
    m.zeros = zeros
    m.ones = ones
    m.zeros_like = zeros_like
    m.ones_like = ones_like
    m.arange = arange
    m.indices = indices
    m.sqrt = sqrt
    m.isclose = isclose
    m.multiply = multiply
    m.add = _Add()
    m.concatenate = concatenate
    m.array_equal = array_equal
    m.__version__ = rnp.__version__

    def __getattr__(name):
        raise Unsupported("numpy.%s is not modelled" % name)
    m.__getattr__ = __getattr__
    return m
