"""Contract stubs for the compiled dependencies the solver cannot enter (DESIGN 2.4).

Each stub constrains its result only by the documented contract *as a function of the arguments the repo
actually passes*; the arguments are recorded in CALLS so that harnesses can state obligations about them.
"""
from __future__ import annotations

import builtins
import itertools
import types

import numpy as rnp
import scipy.ndimage as real_ndimage
import z3

from .sym import ENG, SBool, SNum, Unsupported, Infeasible, lift, to_int
from . import symnp
from .symnp import SArr, ctruth, cz, cnum, is_conc, BOOLDT, _cell_logic, _cell_not

CALLS = []          # (name, info) records of stub invocations on the current path


def reset_calls():
    CALLS.clear()


# ------------------------------------------------------------------------------------------------ multiprocessing
class SerialPool:
    """order-preserving serial model of multiprocessing.Pool (real worker scheduling is outside the claim)"""

    def __init__(self, processes=None, *a, **k):
        if processes is not None and int(processes) < 1:
            raise ValueError("Number of processes must be at least 1")      # multiprocessing.Pool's documented argument check

    def __enter__(self):
        return self

    def __exit__(self, *a):
        return False

    def starmap(self, f, it, chunksize=None):
        return [f(*a) for a in it]

    def map(self, f, it, chunksize=None):
        return [f(a) for a in it]

    def imap(self, f, it, chunksize=1):
        return iter([f(a) for a in it])

    def imap_unordered(self, f, it, chunksize=1):
        # contract: results in ARBITRARY order; the model returns a legal order that differs from submission order whenever it can
        return iter(list(reversed([f(a) for a in it])))

    def apply(self, f, args=(), kwds=None):
        return f(*args, **(kwds or {}))

    def close(self):
        pass

    def join(self):
        pass


class Deadlock(Exception):
    pass


class ModelLock:
    def __init__(self, name=None):
        self.name = name
        self.held = False

    def acquire(self, *a, **k):
        if self.held:
            raise Deadlock("lock %s acquired while held" % self.name)
        self.held = True
        return True

    def release(self):
        if not self.held:
            raise RuntimeError("release unlocked lock")
        self.held = False

    def __enter__(self):
        self.acquire()
        return self

    def __exit__(self, *a):
        self.release()
        return False


def mp_module():
    import multiprocessing
    import multiprocessing.pool
    mp = types.ModuleType("multiprocessing")
    mp.Pool = SerialPool
    mp.Lock = ModelLock
    mp.set_start_method = lambda *a, **k: None
    mp.cpu_count = multiprocessing.cpu_count
    mp.get_start_method = lambda *a, **k: "fork"
    mp.current_process = multiprocessing.current_process
    mp.Process = multiprocessing.Process
    mp.pool = types.ModuleType("multiprocessing.pool")
    mp.pool.Pool = multiprocessing.pool.Pool
    return mp


# ------------------------------------------------------------------------------------------------ geometry helpers
def coords(shape):
    return list(itertools.product(*[range(s) for s in shape]))


def offsets(ndim, full):
    """neighbour offsets: full = all 3^n-1 (8/26-connectivity), else face neighbours (4/6)"""
    offs = []
    for d in itertools.product((-1, 0, 1), repeat=ndim):
        nz = sum(1 for x in d if x != 0)
        if nz == 0:
            continue
        if full or nz == 1:
            offs.append(d)
    return offs


def adjacency_pairs(shape, full=None, structure=None):
    """unordered adjacent index pairs (flat indices) under a connectivity given as full/face or as a structure array"""
    ndim = len(shape)
    if structure is not None:
        st = rnp.asarray(structure).astype(bool)
        assert st.shape == (3,) * ndim
        offs = [tuple(i - 1 for i in idx) for idx in itertools.product(range(3), repeat=ndim) if st[idx] and any(i != 1 for i in idx)]
    else:
        offs = offsets(ndim, full)
    cs = coords(shape)
    pos = {c: i for i, c in enumerate(cs)}
    pairs = set()
    for c in cs:
        for o in offs:
            d = tuple(a + b for a, b in zip(c, o))
            if d in pos:
                i, j = pos[c], pos[d]
                if i != j:
                    pairs.add((min(i, j), max(i, j)))
    return sorted(pairs)


# ------------------------------------------------------------------------------------------------ connected components
def cc_contract(values, shape, pairs, distinguish_values, L, N, rank):
    """z3 formula: (L, N) is a labelling of `values` into exactly its connected components.

    values: list of Int terms/ints; pairs: adjacency; distinguish_values: cc3d (True: neighbours must carry the same
    value) vs scipy (False: any two non-zero neighbours)."""
    n = len(values)
    v = [cnum(x) for x in values]
    fg = [z3.simplify(x != 0) for x in v]
    cs = []
    cs.append(z3.And(N >= 0, N <= n))
    for i in range(n):
        cs.append((L[i] == 0) == z3.Not(fg[i]))
        cs.append(z3.Implies(fg[i], z3.And(L[i] >= 1, L[i] <= N)))

    def same(i, j):
        if distinguish_values:
            return z3.And(fg[i], v[i] == v[j])
        return z3.And(fg[i], fg[j])
    nbrs = {i: [] for i in range(n)}
    for i, j in pairs:
        cs.append(z3.Implies(same(i, j), L[i] == L[j]))
        nbrs[i].append(j)
        nbrs[j].append(i)
    roots = []
    for i in range(n):
        has_parent = [z3.And(same(i, j), L[j] == L[i], rank[j] < rank[i]) for j in nbrs[i]]
        roots.append(z3.And(fg[i], z3.Not(z3.Or(has_parent)) if has_parent else z3.BoolVal(True)))
        cs.append(z3.And(rank[i] >= 0, rank[i] < n))
    for i in range(n):
        for j in range(i + 1, n):
            cs.append(z3.Implies(z3.And(roots[i], roots[j]), L[i] != L[j]))
    for k in range(1, n + 1):
        cs.append(z3.Implies(N >= k, z3.Or([L[i] == k for i in range(n)])))
    return z3.And(cs)


def _cc_stub(arr, full, distinguish_values, structure, out_dtype, tag):
    if isinstance(arr, rnp.ndarray):
        arr = symnp.from_numpy(arr)
    if not isinstance(arr, SArr):
        raise TypeError("connected components of %r" % type(arr))
    if arr.dtype.kind not in "biu":
        raise Unsupported("connected components of dtype %s" % arr.dtype)
    n = arr.size
    vals = [int(c) if isinstance(c, builtins.bool) else (to_int(c) if (not is_conc(c) and c.sort() == z3.BoolSort()) else c) for c in arr.cells]
    pairs = adjacency_pairs(arr.shape, full=full, structure=structure)
    stem = ENG.fresh_name(tag)
    L = [z3.Int("%s_L%d" % (stem, i)) for i in range(n)]
    N = z3.Int("%s_N" % stem)
    rank = [z3.Int("%s_r%d" % (stem, i)) for i in range(n)]
    for x in L:
        symnp.declare_bounds(x, 0, n)
    symnp.declare_bounds(N, 0, n)
    ENG.assume(cc_contract(vals, arr.shape, pairs, distinguish_values, L, N, rank))
    CALLS.append((tag, {"shape": arr.shape, "full": full, "structure": None if structure is None else rnp.asarray(structure).tolist(),
                        "in_dtype": arr.dtype.name, "input": arr, "L": L, "N": N}))
    return SArr(list(L), out_dtype, arr.shape), SNum(N)


def cc3d_connected_components(data, max_labels=-1, connectivity=26, return_N=False, delta=0, out_dtype=None, out_file=None,
                              periodic_boundary=False, binary_image=False, **kw):
    if kw or delta != 0 or periodic_boundary or out_file is not None or max_labels != -1:
        raise Unsupported("cc3d.connected_components option not modelled: %r" % (kw,))
    ndim = data.ndim
    if connectivity in (26, 8):
        full = True
        structure = None
    elif connectivity in (6, 4):
        full = False
        structure = None
    elif connectivity == 18 and ndim == 3:
        full = None
        structure = real_ndimage.generate_binary_structure(3, 2)
    else:
        raise ValueError("Only 4, 8, and 6, 18, 26 connectivities are supported. Got: %r" % (connectivity,))
    arr, N = _cc_stub(data, full, not binary_image, structure, out_dtype or "uint32", "cc3d")
    if return_N:
        return arr, N
    return arr


def scipy_label(input, structure=None, output=None):
    if output is not None:
        raise Unsupported("scipy.ndimage.label(output=)")
    if structure is None:
        arr, N = _cc_stub(input, False, False, None, "int32", "label")
    else:
        arr, N = _cc_stub(input, None, False, structure, "int32", "label")
    return arr, N


# ------------------------------------------------------------------------------------------------ morphology
def binary_erosion(input, structure=None, iterations=1, mask=None, output=None, border_value=0, origin=0, brute_force=False):
    if iterations != 1 or mask is not None or output is not None or border_value != 0 or origin != 0:
        raise Unsupported("binary_erosion option")
    if isinstance(input, rnp.ndarray):
        input = symnp.from_numpy(input)
    ndim = input.ndim
    if structure is None:
        structure = real_ndimage.generate_binary_structure(ndim, 1)
    st = rnp.asarray(structure if not isinstance(structure, SArr) else symnp.to_numpy(structure)).astype(bool)
    if st.shape != (3,) * ndim:
        raise Unsupported("structure shape %s" % (st.shape,))
    offs = [tuple(i - 1 for i in idx) for idx in itertools.product(range(3), repeat=ndim) if st[idx]]
    cs = coords(input.shape)
    pos = {c: i for i, c in enumerate(cs)}
    cells = [ctruth(c) for c in input.cells]
    out = []
    for c in cs:
        acc = True
        for o in offs:
            d = tuple(a + b for a, b in zip(c, o))
            v = cells[pos[d]] if d in pos else False
            acc = _cell_logic(acc, v, "and")
            if acc is False:
                break
        out.append(acc)
    CALLS.append(("binary_erosion", {"structure": st.tolist(), "shape": input.shape}))
    return SArr(out, BOOLDT, input.shape)


def binary_fill_holes(input, structure=None, output=None, origin=0):
    """scipy.ndimage.binary_fill_holes: background that is not connected (default: face connectivity) to the outside of the array becomes
    foreground.  Reachability from outside as a bounded fixpoint over the cells (n rounds suffice for n cells)."""
    if structure is not None or output is not None or origin != 0:
        raise Unsupported("binary_fill_holes option")
    if isinstance(input, rnp.ndarray):
        input = symnp.from_numpy(input)
    shape = input.shape
    cs = coords(shape)
    pos = {c: i for i, c in enumerate(cs)}
    fg = [ctruth(c) for c in input.cells]
    bg = [_cell_not(c) for c in fg]

    def nbs(c):
        out = []
        outside = False
        for ax in range(len(shape)):
            for d in (-1, 1):
                q = tuple(x + (d if k == ax else 0) for k, x in enumerate(c))
                if q in pos:
                    out.append(pos[q])
                else:
                    outside = True
        return out, outside
    info = [nbs(c) for c in cs]
    reach = [bg[i] if info[i][1] else False for i in range(len(cs))]
    for _ in range(len(cs)):
        new = []
        for i in range(len(cs)):
            acc = reach[i]
            for j in info[i][0]:
                acc = _cell_logic(acc, _cell_logic(bg[i], reach[j], "and"), "or")
            new.append(acc)
        reach = new
    out = [_cell_logic(fg[i], _cell_logic(bg[i], _cell_not(reach[i]), "and"), "or") for i in range(len(cs))]
    CALLS.append(("binary_fill_holes", {"shape": shape}))
    return SArr(out, BOOLDT, shape)


def euclidean_feature_transform(input_array, sampling, ft):
    """writes into ft, for every element, the index of a zero element of input at minimal Euclidean distance.
    Ties are resolved towards the first candidate in scan order; only the (tie-invariant) distance is consumed by the repo."""
    if sampling is not None:
        raise Unsupported("euclidean_feature_transform with sampling")
    a = input_array
    cs = coords(a.shape)
    zero = [_cell_not(ctruth(c)) for c in a.cells]
    def no_background():
        # never reached on a tree where a non-empty mask has a non-empty border.  1-D: the compiled routine reports index -1 for every
        # element (observed, scipy 1.x); anything decided through this is replayed on the real package.  n-D: not modelled.
        if a.ndim != 1:
            raise Unsupported("feature transform of an array without background")
        for i in range(len(a.cells)):
            ft._write(i, -1)
        CALLS.append(("euclidean_feature_transform", {"shape": a.shape, "no_background": True}))
    if builtins.all(z is False for z in zero):
        return no_background()
    sy = [z for z in zero if z is not False]
    if not builtins.any(z is True for z in zero):
        if not ENG.branch(z3.Or(sy) if len(sy) > 1 else sy[0]):
            return no_background()
    ndim = a.ndim
    n = len(cs)
    assert ft.shape == (ndim,) + a.shape
    for i, ci in enumerate(cs):
        order = sorted(range(n), key=lambda j: (sum((x - y) ** 2 for x, y in zip(ci, cs[j])), j))
        for ax in range(ndim):
            t = None
            # build from the farthest candidate inwards
            for j in reversed(order):
                if zero[j] is False:
                    continue
                val = cs[j][ax]
                if t is None or zero[j] is True:
                    t = z3.IntVal(val)
                else:
                    t = z3.If(zero[j], z3.IntVal(val), t)
            ft._write(ax * n + i, lift(t))
    CALLS.append(("euclidean_feature_transform", {"shape": a.shape}))


def find_objects(input, max_label=0):
    """scipy.ndimage.find_objects: per label 1..max the tuple of slices of its bounding box (None if the label is absent)"""
    if isinstance(input, rnp.ndarray):
        input = symnp.from_numpy(input)
    a = input
    if a.dtype == BOOLDT:
        labels = [True]
        cells = [ctruth(c) for c in a.cells]
        eq = lambda c, l: c
    else:
        from .sym import interval
        mx = a.max()
        iv = interval(mx.t) if isinstance(mx, SNum) else None
        top = ENG.concretize(mx.t, max(0, iv[0]), iv[1]) if isinstance(mx, SNum) and mx.concrete() is None else int(mx.concrete() if isinstance(mx, SNum) else mx)
        if max_label:
            top = max_label
        labels = list(range(1, top + 1))
        cells = a.cells
        eq = lambda c, l: symnp._cell_cmp(c, l, "eq")
    cs = coords(a.shape)
    out = []
    for l in labels:
        ms = [eq(c, l) for c in cells]
        present = [m for m in ms if m is not False]
        if not present or not (builtins.any(m is True for m in present) or ENG.branch(z3.Or([m for m in present if m is not True]) if len([m for m in present if m is not True]) > 1 else [m for m in present if m is not True][0])):
            out.append(None)
            continue
        sl = []
        for ax in range(a.ndim):
            def slab(k):
                hits = [ms[i] for i, c in enumerate(cs) if c[ax] == k and ms[i] is not False]
                if builtins.any(h is True for h in hits):
                    return True
                sy = [h for h in hits]
                if not sy:
                    return False
                return ENG.branch(z3.Or(sy) if len(sy) > 1 else sy[0])
            first = next(k for k in range(a.shape[ax]) if slab(k))
            last = next(k for k in reversed(range(a.shape[ax])) if slab(k))
            sl.append(slice(first, last + 1, None))
        out.append(tuple(sl))
    CALLS.append(("find_objects", {"shape": a.shape}))
    return out


_skel_cache = {}


def _skeleton(tag):
    def skel(image, **kw):
        if isinstance(image, rnp.ndarray):
            image = symnp.from_numpy(image)
        cells = [ctruth(c) for c in image.cells]
        key = (tag, image.shape, tuple((c if is_conc(c) else c.get_id()) for c in cells))
        if key in _skel_cache:
            return _skel_cache[key][1]
        stem = ENG.fresh_name("skel")
        out = [_cell_logic(c, z3.Bool("%s_%d" % (stem, i)), "and") for i, c in enumerate(cells)]
        res = SArr(out, BOOLDT, image.shape)
        _skel_cache[key] = (cells, res)   # keep the terms alive so ids are not reused
        CALLS.append((tag, {"shape": image.shape}))
        return res
    return skel


def reset_path_state():
    reset_calls()
    _skel_cache.clear()


def default_fakes(np_module):
    mp = mp_module()
    nd = types.ModuleType("scipy.ndimage")
    nd._ni_support = real_ndimage._ni_support
    nd.generate_binary_structure = real_ndimage.generate_binary_structure
    nd.binary_erosion = binary_erosion
    nd.binary_fill_holes = binary_fill_holes
    nd.label = scipy_label
    nd.find_objects = find_objects
    ndi = types.ModuleType("scipy.ndimage._nd_image")
    ndi.euclidean_feature_transform = euclidean_feature_transform
    nd._nd_image = ndi
    sp = types.ModuleType("scipy")
    sp.ndimage = nd
    cc = types.ModuleType("cc3d")
    cc.connected_components = cc3d_connected_components
    sk = types.ModuleType("skimage")
    skm = types.ModuleType("skimage.morphology")
    skm.skeletonize = _skeleton("skeletonize")
    skm.skeletonize_3d = _skeleton("skeletonize_3d")
    sk.morphology = skm
    return {"numpy": np_module, "multiprocessing": mp, "multiprocessing.pool": mp.pool, "scipy": sp, "scipy.ndimage": nd,
            "scipy.ndimage._nd_image": ndi, "cc3d": cc, "skimage": sk, "skimage.morphology": skm}
