"""Case runner: explores harness cases in worker processes, replays witnesses / counterexamples on the real
package, matches known findings, writes evidence, sets the exit code (0 held / 1 violation / 2 inconclusive)."""
from __future__ import annotations

import hashlib
import importlib
import json
import multiprocessing
import os
import subprocess
import sys
import time
import traceback
from fractions import Fraction

import z3

from . import sym, symnp, stubs
from .sym import ENG, Engine, EngineSignal, Infeasible, Inconclusive, Unsupported, SNum, SBool, py_value

VERIF = os.path.dirname(os.path.dirname(os.path.abspath(__file__)))
REPO = os.environ.get("PANOPTICA_REPO", "/repo")


# ------------------------------------------------------------------------------------------------ decoding
def jsonable(x, model=None):
    """nested structure of python values / z3 terms / Sym / SArr -> JSON-able, evaluating terms under the model"""
    from .symnp import SArr
    if x is None or isinstance(x, (bool, str)):
        return x
    if isinstance(x, int):
        return x
    if isinstance(x, float):
        if x != x:
            return {"float": "nan"}
        if x in (float("inf"), float("-inf")):
            return {"float": "inf" if x > 0 else "-inf"}
        return x
    if isinstance(x, Fraction):
        return x.numerator if x.denominator == 1 else {"frac": [x.numerator, x.denominator]}
    if isinstance(x, (SNum, SBool)):
        return jsonable(x.t, model)
    if isinstance(x, z3.ExprRef):
        if model is None:
            v = z3.simplify(x)
        else:
            v = model.eval(x, model_completion=True)
        return jsonable(py_value(v))
    if isinstance(x, SArr):
        flat = [jsonable(c, model) for c in x.cells]

        def nest(cells, shape):
            if len(shape) <= 1:
                return cells
            step = len(cells) // shape[0]
            return [nest(cells[i * step:(i + 1) * step], shape[1:]) for i in range(shape[0])]
        return {"array": nest(flat, x.shape), "dtype": x.dtype.name, "shape": list(x.shape)}
    if isinstance(x, dict):
        return {str(k): jsonable(v, model) for k, v in x.items()}
    if isinstance(x, (list, tuple)):
        return [jsonable(v, model) for v in x]
    if type(x).__module__ == "numpy":
        import numpy as np
        if isinstance(x, np.ndarray):
            return {"array": x.tolist(), "dtype": x.dtype.name, "shape": list(x.shape)}
        return jsonable(x.item())
    if hasattr(x, "name") and hasattr(x, "value"):
        return str(getattr(x, "name"))
    raise TypeError("cannot encode %r" % (x,))


def unjson_num(v):
    """inverse for numbers on the real side: exact fractions -> float (one correctly rounded division)"""
    if isinstance(v, dict):
        if "frac" in v:
            return v["frac"][0] / v["frac"][1]
        if "float" in v:
            return float(v["float"])
    return v


def to_ndarray(d):
    import numpy as np
    return np.array(d["array"], dtype=d["dtype"]).reshape(d["shape"])


# ------------------------------------------------------------------------------------------------ harness context
class H:
    """per-case harness context (lives in the worker process)"""

    def __init__(self, prop, case_name, decode, max_witnesses=None, replay_kind=None):
        self.prop = prop
        self.case_name = case_name
        self.decode = decode               # model -> JSON case for the real-package replay
        self.replay_kind = replay_kind
        self.violations = []
        self.witnesses = []
        self.obligations = {}              # name -> [checked, discharged]
        self.nontrivial = set()
        self.max_witnesses = max_witnesses
        self.functions = set()
        self.stop_after_first_violation_per_obligation = True
        self._viol_obl = set()
        self.last_neg = None
        self.n_failed = 0

    def ok(self, name, phi, detail=None, extra=None):
        """obligation: phi must hold on the current path for every input.  Returns True if discharged."""
        st = self.obligations.setdefault(name, [0, 0])
        st[0] += 1
        if isinstance(phi, SBool):
            phi = phi.t
        if isinstance(phi, bool) or type(phi).__name__ == "bool_":
            if phi:
                st[1] += 1
                ENG.stats.final_unsat += 1
                return True
            neg = z3.BoolVal(True)
        else:
            neg = z3.simplify(z3.Not(phi))
            if z3.is_false(neg):
                st[1] += 1
                ENG.stats.final_unsat += 1
                return True
        r, m = ENG.check(neg)
        if r == "unsat":
            st[1] += 1
            ENG.stats.final_unsat += 1
            return True
        ENG.stats.final_sat += 1
        self.n_failed += 1
        if name in self._viol_obl and self.stop_after_first_violation_per_obligation and len(self.violations) >= 8:
            return False
        self._viol_obl.add(name)
        self.last_neg = neg                # available to decode(): the violated obligation's negation on this path
        try:
            case = self.decode(m)
        finally:
            self.last_neg = None
        self.violations.append({"obligation": name, "case": case, "detail": jsonable(detail, m) if detail is not None else None,
                                "kind": self.replay_kind, "extra": jsonable(extra, m) if extra is not None else None})
        return False

    def ok_equal(self, name, a, b, detail=None):
        """obligation a == b for real terms that may contain divisions by symbolic terms: discharged syntactically when both
        sides normalise to the same term, otherwise handed to the solver (a wrong formula is an easy sat for nlsat)"""
        if z3.is_true(z3.simplify(a == b)) or z3.simplify(a).eq(z3.simplify(b)):
            st = self.obligations.setdefault(name, [0, 0])
            st[0] += 1
            st[1] += 1
            ENG.stats.final_unsat += 1
            return True
        return self.ok(name, a == b, detail)

    def fail(self, name, detail=None):
        """unconditional violation candidate on the current path (e.g. an exception the property forbids)"""
        return self.ok(name, False, detail)

    def witness(self, expect=None, tag=None):
        """record a concrete representative of the current path (+ what the twin computed on it)"""
        if self.max_witnesses is not None and len(self.witnesses) >= self.max_witnesses:
            return
        m = ENG.path_model()
        self.witnesses.append({"case": self.decode(m), "expect": jsonable(expect, m) if expect is not None else None,
                               "kind": self.replay_kind, "tag": tag})

    def note_nontrivial(self, key):
        self.nontrivial.add(key)


class _EnoughCounterexamples(BaseException):
    pass


def profile_functions(fn, repo=REPO):
    """run fn once collecting the qualified names of repository functions entered"""
    seen = set()
    prefix = os.path.join(repo, "panoptica")

    def prof(frame, event, arg):
        if event == "call":
            co = frame.f_code
            if co.co_filename.startswith(prefix):
                seen.add("%s:%s" % (os.path.relpath(co.co_filename, repo), co.co_qualname))
    sys.setprofile(prof)
    try:
        return fn(), seen
    finally:
        sys.setprofile(None)


def explore_case(h, body, logic=None, incremental=True, const_hash=False, base=(), max_paths=None, time_budget=None,
                 timeout_ms=60000, concretize_div=0):
    """standard worker-side driver: explore body() on a fresh engine state; exceptions escaping body are reported by body"""
    ENG.__init__()
    ENG.logic = logic
    ENG.incremental = incremental
    ENG.const_hash = const_hash
    ENG.concretize_div = concretize_div
    ENG.base = list(base)
    ENG.timeout_ms = timeout_ms
    ENG.seed = int(os.environ.get("VERIF_SEED", "0") or 0)
    first = [True]

    stop_after = int(os.environ.get("VERIF_STOP_AFTER", "24"))

    def wrapped():
        if h.n_failed >= stop_after and h.violations:
            raise _EnoughCounterexamples()      # a broken tree: do not spend the whole budget enumerating more paths of this case
        stubs.reset_path_state()
        if first[0]:
            first[0] = False
            r, fns = profile_functions(body)
            h.functions |= fns
            return r
        return body()
    t = time.time()
    err = None
    try:
        ENG.explore(wrapped, max_paths=max_paths, time_budget=time_budget)
    except _EnoughCounterexamples:
        pass
    except (Inconclusive, Unsupported) as e:
        err = "%s: %s\n%s" % (type(e).__name__, e, traceback.format_exc(limit=12))
    return {"prop": h.prop, "case": h.case_name, "stats": ENG.stats.as_dict(), "violations": h.violations,
            "witnesses": h.witnesses, "obligations": h.obligations, "nontrivial": sorted(map(str, h.nontrivial)),
            "functions": sorted(h.functions), "error": err, "wall_s": time.time() - t}


# ------------------------------------------------------------------------------------------------ real-package replay
class ReplayServer:
    """persistent pristine interpreter running the REAL package (no twin, real numpy/scipy/cc3d)"""

    def __init__(self):
        env = dict(os.environ)
        env["PYTHONPATH"] = REPO + os.pathsep + VERIF
        env["PANOPTICA_CITATION_REMINDER"] = "false"
        env.pop("PANOPTICA_VERIF", None)
        self.p = subprocess.Popen([sys.executable, "-W", "ignore", "-m", "pv.replay_real"], stdin=subprocess.PIPE,
                                  stdout=subprocess.PIPE, env=env, cwd=VERIF, text=True)

    def call(self, harness, kind, case, mode, expect=None, timeout=300):
        req = {"harness": harness, "kind": kind, "case": case, "mode": mode, "expect": expect}
        self.p.stdin.write(json.dumps(req) + "\n")
        self.p.stdin.flush()
        line = self.p.stdout.readline()
        if not line:
            raise RuntimeError("replay server died")
        return json.loads(line)

    def close(self):
        try:
            self.p.stdin.close()
            self.p.wait(timeout=20)
        except Exception:
            self.p.kill()


def _worker(args):
    modname, case = args
    try:
        mod = importlib.import_module(modname)
        sym.reset_bounds()      # declared variable bounds / interval caches never leak from one case into the next
        return mod.run_case(case)
    except EngineSignal as e:
        return {"prop": None, "case": case.get("name"), "error": "%s: %s\n%s" % (type(e).__name__, e, traceback.format_exc(limit=12)),
                "stats": {}, "violations": [], "witnesses": [], "obligations": {}, "nontrivial": [], "functions": [], "wall_s": 0}
    except Exception as e:
        return {"prop": None, "case": case.get("name"), "error": "harness crash %s: %s\n%s" % (type(e).__name__, e, traceback.format_exc(limit=20)),
                "stats": {}, "violations": [], "witnesses": [], "obligations": {}, "nontrivial": [], "functions": [], "wall_s": 0}


def load_known(prop):
    p = os.path.join(VERIF, "known_findings.json")
    if not os.path.exists(p):
        return []
    return [k for k in json.load(open(p)) if k["property"] == prop]


def match_known(entries, viol, observed):
    for k in entries:
        if k.get("status") != "known":
            continue
        try:
            if eval(k["predicate"], {"__builtins__": {"len": len, "any": any, "all": all, "max": max, "min": min, "abs": abs,
                                                       "str": str, "isinstance": isinstance, "dict": dict, "list": list, "sum": sum,
                                                       "set": set, "sorted": sorted, "int": int, "float": float}},
                    {"c": viol["case"], "o": observed, "obligation": viol["obligation"], "kind": viol.get("kind")}):
                return k
        except Exception:
            continue
    return None


def main(prop, modname, tier, nproc=None):
    t0 = time.time()
    seed = int(os.environ.get("VERIF_SEED", "0") or 0)
    mod = importlib.import_module(modname)
    cases = mod.cases(tier)
    only = os.environ.get("VERIF_ONLY")          # development aid: run a subset of cases; such a run never writes evidence
    if only:
        import re as _re
        cases = [c for c in cases if _re.search(only, str(c["name"]))]
    nproc = nproc or min(int(os.environ.get("VERIF_PROCS", "16")), max(1, len(cases)))
    ctx = multiprocessing.get_context("fork")
    results = []
    with ctx.Pool(nproc, maxtasksperchild=4) as pool:
        for r in pool.imap_unordered(_worker, [(modname, c) for c in cases]):
            results.append(r)
            if os.environ.get("VERIF_VERBOSE"):
                print("  case %-40s paths=%-6s viol=%d wall=%.1fs %s" % (r["case"], r["stats"].get("paths"), len(r["violations"]), r["wall_s"],
                                                                      ("ERROR " + r["error"].splitlines()[0]) if r["error"] else ""), flush=True)
    results.sort(key=lambda r: str(r["case"]))
    errors = [r for r in results if r["error"]]
    # ---- replay on the real package
    srv = ReplayServer()
    known = load_known(prop)
    replay_dir = os.environ.get("VERIF_REPLAY_DIR") or os.path.join(VERIF, "replays", prop)
    confirmed, known_hits, spurious = [], [], []
    MAX_CONFIRM = int(os.environ.get("VERIF_MAX_CONFIRM", "4"))
    MAX_REPLAYS = int(os.environ.get("VERIF_MAX_REPLAYS", "40"))     # counterexample replays attempted per run (only matters on broken trees)
    tried = 0
    not_replayed = 0
    dirty = False
    validated = 0
    mismatches = []
    try:
        for r in results:
            for w in r["witnesses"]:
                if w.get("kind") is None or len(confirmed) >= MAX_CONFIRM:
                    continue
                out = srv.call(modname, w["kind"], w["case"], "witness", w.get("expect"))
                if out.get("violates") or out.get("error"):
                    # a broken tree may have polluted process-global state of the real package (shared default lists, caches):
                    # continue with a pristine interpreter
                    srv.close()
                    srv = ReplayServer()
                if out.get("violates"):
                    # the real package breaks the property's concrete oracle on a solver-chosen path representative
                    v = {"obligation": (out.get("reason") or "witness").split(":")[0], "case": w["case"], "kind": w["kind"], "detail": None,
                         "extra": None, "observed": out.get("observed"), "real_reason": out.get("reason")}
                    k = match_known(known, v, out.get("observed"))
                    if k is not None:
                        known_hits.append((k, v))
                    else:
                        confirmed.append(v)
                elif out.get("error"):
                    mismatches.append({"case": w["case"], "why": out["error"]})
                elif out.get("match") is False:
                    mismatches.append({"case": w["case"], "why": out.get("why"), "observed": out.get("observed"), "expect": w.get("expect")})
                else:
                    validated += 1
        # counterexamples: round-robin over the cases, so that one case with many unconfirmable ones cannot use up the replay budget
        import itertools as _it
        order = [v for tup in _it.zip_longest(*[r["violations"] for r in results]) for v in tup if v is not None]
        for _once in (0,):
            for v in order:
                if v.get("kind") is None:
                    spurious.append({"violation": v, "why": "no replay kind"})
                    continue
                if len(confirmed) >= MAX_CONFIRM or tried >= MAX_REPLAYS:
                    not_replayed += 1     # enough confirmed violations for the verdict (or the replay budget is used up); the rest is not replayed
                    continue
                tried += 1
                if dirty or getattr(mod, "FRESH_REPLAY", False):
                    srv.close()
                    srv = ReplayServer()      # confirm in a pristine interpreter
                    dirty = False
                out = srv.call(modname, v["kind"], v["case"], "violation", {"obligation": v["obligation"], "detail": v.get("detail"), "extra": v.get("extra")})
                dirty = True
                if out.get("error"):
                    spurious.append({"violation": v, "why": "replay error: " + out["error"]})
                    continue
                if not out.get("violates"):
                    spurious.append({"violation": v, "why": "does not reproduce on the real package", "observed": out.get("observed")})
                    continue
                v["observed"] = out.get("observed")
                v["real_reason"] = out.get("reason")
                k = match_known(known, v, out.get("observed"))
                if k is not None:
                    known_hits.append((k, v))
                else:
                    confirmed.append(v)
    finally:
        srv.close()
    # ---- report
    exit_code = 0
    lines = []
    seen_known = {}
    for k, v in known_hits:
        seen_known.setdefault(k["id"], (k, v))
    for kid, (k, v) in sorted(seen_known.items()):
        lines.append("KNOWN-FINDING: property=%s %s" % (prop, k["text"]))
    written = set()
    for v in confirmed:
        os.makedirs(replay_dir, exist_ok=True)
        payload = {"property": prop, "harness": modname, "kind": v["kind"], "obligation": v["obligation"], "case": v["case"],
                   "detail": v.get("detail"), "extra": v.get("extra"), "observed": v.get("observed"), "reason": v.get("real_reason")}
        hsh = hashlib.sha1(json.dumps([payload["kind"], payload["obligation"], payload["case"]], sort_keys=True).encode()).hexdigest()[:16]
        path = os.path.join(replay_dir, hsh + ".json")
        if path in written:
            continue
        written.add(path)
        json.dump(payload, open(path, "w"), indent=1, sort_keys=True)
        if len(written) <= 5:
            lines.append("VIOLATION property=%s replay=%s" % (prop, path))
            lines.append("  obligation=%s reason=%s" % (v["obligation"], v.get("real_reason")))
        exit_code = 1
    if exit_code == 0 and (errors or spurious or mismatches):
        exit_code = 2
    for e in errors[:5]:
        lines.append("INCONCLUSIVE case=%s %s" % (e["case"], e["error"].strip().splitlines()[0]))
        if os.environ.get("VERIF_VERBOSE"):
            lines.append(e["error"])
    for s in spurious[:5]:
        lines.append("HARNESS-ERROR non-reproducing counterexample obligation=%s why=%s case=%s observed=%s" % (
            s["violation"]["obligation"], s["why"], json.dumps(s["violation"]["case"])[:int(os.environ.get("VERIF_CASE_CHARS", "400"))], json.dumps(s.get("observed"))[:300]))
    for m in mismatches[:5]:
        lines.append("MODEL-ERROR twin/real mismatch: %s case=%s expect=%s observed=%s" % (
            m.get("why"), json.dumps(m["case"])[:400], json.dumps(m.get("expect"))[:300], json.dumps(m.get("observed"))[:300]))
    # ---- evidence
    stats = sym.Stats()
    for r in results:
        stats.merge(r["stats"])
    obligations = {}
    for r in results:
        for k, (c, d) in r["obligations"].items():
            o = obligations.setdefault(k, [0, 0])
            o[0] += c
            o[1] += d
    nontrivial = set()
    for r in results:
        nontrivial |= {(r["case"], x) for x in r["nontrivial"]}
    samples = []
    for r in results:
        for w in r["witnesses"][:1]:
            samples.append({"case_name": r["case"], "input": w["case"], "twin_output": w.get("expect")})
        if len(samples) >= 6:
            break
    if not samples:
        samples = [{"case_name": r["case"], "stats": r["stats"]} for r in results[:3]]
    functions = sorted({f for r in results for f in r["functions"]})
    meta = getattr(mod, "META", {})
    ev = {
        "property_id": prop, "tier": tier, "seed": seed, "level": "model_checking",
        "coverage": {
            "states": max(1, stats.paths), "transitions": max(1, stats.decisions),
            "traces_validated_against_impl": validated, "samples": samples,
            "explanation": "states = feasible execution paths of the repository's own function bodies explored symbolically (each path covers all inputs "
                           "satisfying its path condition); transitions = recorded branch decisions; every obligation is a solver query path AND NOT(phi).",
            "cases": len(results), "obligations": sum(c for c, d in obligations.values()),
            "discharged": sum(d for c, d in obligations.values()),
            "obligations_by_name": {k: {"checked": c, "discharged": d} for k, (c, d) in sorted(obligations.items())},
            "queries": {"total": stats.checks, "sat": stats.sat, "unsat": stats.unsat, "unknown": stats.unknown},
            "solver_time_s": round(stats.solver_s, 2),
            "distinct_nontrivial": len(nontrivial), "rule": meta.get("nontrivial_rule", "distinct (case, path-class) pairs flagged non-trivial by the harness"),
            "evaluations": max(1, stats.paths),
            "exhaustive": not errors,
            "bounds": meta.get("bounds", {}).get(tier, meta.get("bounds")),
            "functions_encoded": functions,
            "stubs": meta.get("stubs", []),
            "solvers": "z3 %s (python API, incremental per path); numpy model for NumPy %s" % (z3.get_version_string(), _np_version()),
            "witness_mismatches": len(mismatches), "non_reproducing_counterexamples": len(spurious), "counterexamples_not_replayed": not_replayed,
            "inconclusive_cases": len(errors),
            "known_findings_hit": sorted(seen_known.keys()),
            "per_case": [{"case": r["case"], "paths": r["stats"].get("paths"), "decisions": r["stats"].get("decisions"),
                          "queries": r["stats"].get("checks"), "wall_s": round(r["wall_s"], 2)} for r in results][:200],
            "source_sha256": _source_digest(),
        },
        "assumptions": meta.get("assumptions", []),
        "wall_s": round(time.time() - t0, 2),
        "violations": len(confirmed),
    }
    os.makedirs(os.path.join(VERIF, "evidence"), exist_ok=True)
    try:
        import jsonschema
        sch = "/root/.vp/EVIDENCE.schema.json"
        if os.path.exists(sch):
            jsonschema.validate(ev, json.load(open(sch)))
    except ImportError:
        pass
    if only or os.environ.get("VERIF_NO_EVIDENCE"):
        print("(development run: evidence not written)")
    else:
        json.dump(ev, open(os.path.join(VERIF, "evidence", prop + ".json"), "w"), indent=1, sort_keys=True)
    print("%s tier=%s cases=%d paths=%d decisions=%d queries=%d obligations=%d/%d witnesses_validated=%d wall=%.1fs" % (
        prop, tier, len(results), stats.paths, stats.decisions, stats.checks, ev["coverage"]["discharged"],
        ev["coverage"]["obligations"], validated, time.time() - t0))
    for ln in lines:
        print(ln)
    return exit_code


def _np_version():
    import numpy
    return numpy.__version__


def _source_digest():
    out = {}
    root = os.path.join(REPO, "panoptica")
    for d, _, fs in os.walk(root):
        for f in fs:
            if f.endswith(".py"):
                p = os.path.join(d, f)
                out[os.path.relpath(p, REPO)] = hashlib.sha256(open(p, "rb").read()).hexdigest()[:16]
    return out
