#!/bin/bash
# tools/mutwt.sh <seed id> <check ID> <outfile> : run one check (quick tier) against a scratch worktree of /repo with the seed applied
# (PANOPTICA_REPO points the twin and the replay interpreter at it); /repo itself is untouched, so several can run side by side
SID=$1; ID=$2; OUT=$3
W=/tmp/mwt_${SID}_$ID
cd /repo && git worktree add -q --detach $W HEAD || exit 9
cd $W && git apply /verif/seeded/$SID/patch.diff || { echo "$SID check=$ID exit=9 0s | patch does not apply" >> $OUT; cd /repo; git worktree remove --force $W; exit 9; }
s=$(date +%s)
cd /verif && PANOPTICA_REPO=$W VERIF_NO_EVIDENCE=1 VERIF_PROCS=${VERIF_PROCS:-8} VERIF_REPLAY_DIR=/tmp/mwt_replays_${SID}_$ID timeout 1800 ./check $ID --tier quick > /tmp/mwt_${SID}_$ID.log 2>&1
rc=$?
e=$(date +%s)
viol=$(grep "obligation=" /tmp/mwt_${SID}_$ID.log | head -1 | cut -c1-220)
[ -z "$viol" ] && viol=$(grep -E "INCONCLUSIVE|HARNESS-ERROR|MODEL-ERROR" /tmp/mwt_${SID}_$ID.log | head -1 | cut -c1-220)
echo "$SID check=$ID exit=$rc $((e-s))s | $viol" >> $OUT
cd /repo && git worktree remove --force $W
rm -rf /tmp/mwt_replays_${SID}_$ID
