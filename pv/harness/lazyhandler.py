"""lazily symbolic edge-case handler configuration (SEnum of DESIGN 4/C08): a configuration value is decided (forked over
the five EdgeCaseResult members) only when the code under test reads it."""
from __future__ import annotations

import z3

from ..sym import ENG, declare_bounds

SCEN = ["NO_INSTANCES", "EMPTY_PRED", "EMPTY_REF", "NORMAL"]
RESULTS = ["INF", "NAN", "ZERO", "ONE", "NONE"]
METRICS5 = ["DSC", "IOU", "ASSD", "clDSC", "RVD"]


class LazyEnum:
    """stands for an (as yet undecided) member of an Enum; any use resolves it by an n-ary engine decision"""

    def __init__(self, var, members, log=None, tag=None):
        object.__setattr__(self, "_var", var)
        object.__setattr__(self, "_members", members)
        object.__setattr__(self, "_log", log)
        object.__setattr__(self, "_tag", tag)

    def _resolve(self):
        i = ENG.concretize(self._var, 0, len(self._members) - 1)
        if self._log is not None:
            self._log.append(self._tag)
        return self._members[i]

    def __getattr__(self, name):
        return getattr(self._resolve(), name)

    def __call__(self, *a, **k):
        return self._resolve()(*a, **k)

    def __eq__(self, o):
        if isinstance(o, LazyEnum):
            o = o._resolve()
        return self._resolve() == o

    def __ne__(self, o):
        return not self.__eq__(o)

    def __hash__(self):
        return hash(self._resolve())

    def __repr__(self):
        return "LazyEnum(%s)" % (self._var,)

    def __str__(self):
        return str(self._resolve())


def build(T, metrics=METRICS5, log=None, suffix=""):
    """returns (handler, vars) where vars[(metric, scenario)] / vars['std'] are the z3 Int index variables"""
    EH = T.mod("panoptica.utils.edge_case_handling")
    MM = T.mod("panoptica.metrics.metrics")
    members = [getattr(EH.EdgeCaseResult, r) for r in RESULTS]
    vs = {}
    cfg = {}
    for m in metrics:
        kw = {}
        for sc, arg in zip(SCEN, ("no_instances_result", "empty_prediction_result", "empty_reference_result", "normal")):
            v = z3.Int("cfg_%s_%s%s" % (m, sc, suffix))
            declare_bounds(v, 0, len(RESULTS) - 1)
            vs[(m, sc)] = v
            kw[arg] = LazyEnum(v, members, log, (m, sc))
        cfg[getattr(MM.Metric, m)] = EH.MetricZeroTPEdgeCaseHandling(**kw)
    sv = z3.Int("cfg_empty_list_std" + suffix)
    declare_bounds(sv, 0, len(RESULTS) - 1)
    vs["std"] = sv
    handler = EH.EdgeCaseHandler(listmetric_zeroTP_handling=cfg, empty_list_std=LazyEnum(sv, members, log, "std"))
    base = [z3.And(v >= 0, v <= len(RESULTS) - 1) for v in vs.values()]
    return handler, vs, base


def value_of(idx):
    return {"INF": float("inf"), "NAN": float("nan"), "ZERO": 0.0, "ONE": 1.0, "NONE": None}[RESULTS[idx]]


def same_value(a, b):
    """identical, NaN-aware"""
    if a is None or b is None:
        return a is None and b is None
    if isinstance(a, float) and a != a:
        return isinstance(b, float) and b != b
    try:
        return float(a) == float(b)
    except Exception:
        return False


def decode_cfg(vs, m, jsonable):
    out = {}
    for k, v in vs.items():
        key = "std" if k == "std" else "%s:%s" % k
        out[key] = RESULTS[int(jsonable(v, m))]
    return out


def real_handler(cfgd, metrics=METRICS5):
    """build the REAL EdgeCaseHandler from a decoded configuration"""
    from panoptica import Metric
    from panoptica.utils.edge_case_handling import EdgeCaseHandler, EdgeCaseResult, MetricZeroTPEdgeCaseHandling
    cfg = {}
    for m in metrics:
        kw = {}
        for sc, arg in zip(SCEN, ("no_instances_result", "empty_prediction_result", "empty_reference_result", "normal")):
            kw[arg] = getattr(EdgeCaseResult, cfgd["%s:%s" % (m, sc)])
        cfg[getattr(Metric, m)] = MetricZeroTPEdgeCaseHandling(**kw)
    return EdgeCaseHandler(listmetric_zeroTP_handling=cfg, empty_list_std=getattr(EdgeCaseResult, cfgd["std"]))
