"""C03 - instance matching is a sound, conflict-free, maximal best-first assignment (layer C, DESIGN 4/C03).

Symbolically executed (twin): NaiveThresholdMatching.__init__/_match_instances,
_calc_matching_metric_of_overlapping_labels (incl. the real sorted(...)), _Metric.__call__ (label selection on tiny
identity arrays), Metric.score_beats_threshold, InstanceLabelMap.*, UnmatchedInstancePair.__init__.
Contracts: _calc_overlapping_labels -> exactly the overlapping (ref, pred) pairs, in (pred, ref) order (C09 decides that);
metric kernel -> a free real score per pair in the metric's range (C06/C07 decide the kernels).
"""
from __future__ import annotations

import itertools
from fractions import Fraction

import z3

from ..sym import ENG, SNum, SBool, EngineSignal
from ..symnp import SArr
from ..run import H, explore_case, jsonable
from .common import frac, fl, sets_1d_from_counts, voxel_sets, iou_frac, dice_frac

from . import layera_match as LAM

PROP = "C03"
META = {
    "bounds": {
        "quick": "instance grids 3x3 with <= 3 overlapping candidate pairs, 2x2 with <= 4 and 2x3 with <= 3; the whole matcher on 2-3 voxel geometry classes with free label values per dtype; metrics IOU/DSC/ASSD; allow_many_to_one in {False, True}; "
                 "scores free reals in the metric range, thresholds free reals; second (stricter) threshold for monotonicity",
        "thorough": "3x3 with <= 4 pairs, 2x3 and 3x2 with <= 5 pairs; same option space",
    },
    "stubs": ["_calc_overlapping_labels := exact overlap pairs in (pred, ref) order (contract, decided by C09)",
              "metric kernel := free real score per candidate pair (kernels decided by C06/C07)",
              "multiprocessing.Pool := serial order-preserving starmap"],
    "assumptions": ["scores are free reals: over-approximates the scores voxel arrays can induce; every counterexample is realised as voxel counts "
                    "(second solver query) and replayed on the real package",
                    "float comparisons modelled exactly (DESIGN 2.3)",
                    "instance grids larger than the bound are outside the claim"],
    "nontrivial_rule": "paths in which at least two candidate pairs compete for one instance (share a reference or a prediction)",
}


def cases(tier):
    out = []
    grids = [(3, 3, 3), (2, 2, 4), (2, 3, 3)] if tier == "quick" else [(3, 3, 4), (2, 3, 5), (3, 2, 5)]
    for metric in ("IOU", "DSC", "ASSD"):
        for many in (False, True):
            for R, Pn, mp in grids:
                out.append({"name": "%s_many%d_%dx%d_le%d" % (metric, many, R, Pn, mp), "metric": metric, "many": many, "R": R, "P": Pn, "maxpairs": mp,
                            "reuse": (R, Pn) == (2, 2) and metric == "IOU"})
    # layer A: the whole matcher (real overlap-pair extraction, kernels, relabelling) for every label value and dtype
    out += LAM.matcher_cases(tier, PROP)
    return out


def run_case(case):
    if case.get("what") == "layerA_matcher":
        return LAM.run_matcher_case(case, PROP, {"assign": "assignment_follows_documented_best_first_for_any_label_values"})
    from ..twin import Twin
    T = Twin()
    F = T.mod("panoptica._functionals")
    IM = T.mod("panoptica.instance_matcher")
    MM = T.mod("panoptica.metrics.metrics")
    PP = T.mod("panoptica.utils.processing_pair")
    metric, many, R, Pn, maxpairs = case["metric"], case["many"], case["R"], case["P"], case["maxpairs"]
    met = getattr(MM.Metric, metric)
    inc = not met.decreasing
    ov = [[z3.Bool("ov_%d_%d" % (r, p)) for p in range(Pn)] for r in range(R)]
    sc = [[z3.Real("s_%d_%d" % (r, p)) for p in range(Pn)] for r in range(R)]
    thr, thr2 = z3.Real("thr"), z3.Real("thr2")
    base = [z3.Sum([z3.If(ov[r][p], 1, 0) for r in range(R) for p in range(Pn)]) <= maxpairs]
    for r in range(R):
        for p in range(Pn):
            base.append(z3.And(sc[r][p] > 0, sc[r][p] <= 1) if inc else sc[r][p] >= 0)
    base += [thr >= 0, thr2 >= 0] + ([thr <= 1, thr2 <= 1, thr <= thr2] if inc else [thr >= thr2])

    ref_arr = SArr(list(range(1, R + 1)) + [0] * Pn, "uint8")
    pred_arr = SArr([0] * R + list(range(1, Pn + 1)), "uint8")

    def free_metric(ref_mask, pred_mask, *a, **k):
        rc, pc = ref_mask.cells, pred_mask.cells
        r = [i for i, c in enumerate(rc) if c is True]
        p = [i - R for i, c in enumerate(pc) if c is True]
        assert len(r) == 1 and len(p) == 1 and 0 <= p[0] < Pn, (rc, pc)
        return SNum(sc[r[0]][p[0]], "float64")
    met.value._metric_function = free_metric

    def overlap_contract(prediction_arr, reference_arr, ref_labels):
        return [(r + 1, p + 1) for p in range(Pn) for r in range(R) if SBool(ov[r][p])]
    F._calc_overlapping_labels = overlap_contract

    def decode(m):
        return {"metric": metric, "many": many, "R": R, "P": Pn,
                "flags": [[bool(jsonable(ov[r][p], m)) for p in range(Pn)] for r in range(R)],
                "scores": [[jsonable(sc[r][p], m) for p in range(Pn)] for r in range(R)],
                "thr": jsonable(thr, m), "thr2": jsonable(thr2, m), "reuse": bool(case.get("reuse")),
                "scores2": [[jsonable(sc2[r][p], m) for p in range(Pn)] for r in range(R)]}
    h = H(PROP, case["name"], decode, replay_kind="abstract" if metric != "ASSD" else "abstract_search", max_witnesses=case.get("max_witnesses", 40))

    def beats(s, t):
        return s >= t if inc else s <= t

    def good(a, b):
        return a >= b if inc else a <= b

    def match(t, pair=None, metric_obj=None):
        pair = pair or PP.UnmatchedInstancePair(pred_arr, ref_arr)
        matcher = IM.NaiveThresholdMatching(metric_obj or met, SNum(t, None), many)
        lm = matcher._match_instances(pair)
        return {int(p): int(r) for p, r in lm.labelmap.items()}

    # a second metric with its own free scores, to match the SAME pair object again (multi-step use of one pair)
    met2 = getattr(MM.Metric, "DSC" if metric != "DSC" else "IOU")
    sc2 = [[z3.Real("s2_%d_%d" % (r, p)) for p in range(Pn)] for r in range(R)]
    base += [z3.And(sc2[r][p] > 0, sc2[r][p] <= 1) for r in range(R) for p in range(Pn)]
    if case.get("reuse"):
        # the second metric is not independent of the first on real masks (DSC = 2 IoU / (1 + IoU)): in the reuse case the first scores range
        # over a catalogue of IoU values and the second metric's score is the Dice value of the same masks (keeps the query linear)
        cat = [Fraction(1, 5), Fraction(1, 4), Fraction(1, 3), Fraction(1, 2), Fraction(2, 3), Fraction(1, 1)]
        for r in range(R):
            for p in range(Pn):
                base.append(z3.Or([z3.And(sc[r][p] == z3.Q(a.numerator, a.denominator), sc2[r][p] == z3.Q(2 * a.numerator, a.denominator + a.numerator)) for a in cat]))

    def free_metric2(ref_mask, pred_mask, *a, **k):
        r = [i for i, c in enumerate(ref_mask.cells) if c is True]
        p = [i - R for i, c in enumerate(pred_mask.cells) if c is True]
        return SNum(sc2[r[0]][p[0]], "float64")
    met2.value._metric_function = free_metric2

    def body():
        try:
            M = match(thr)
        except EngineSignal:
            raise
        except Exception as e:
            h.fail("terminates_with_result", detail="%s: %s" % (type(e).__name__, str(e)[:120]))
            return
        E = [(r, p) for r in range(R) for p in range(Pn) if _decided(ov[r][p])]
        assigned = {(r - 1, p - 1) for p, r in M.items()}
        if any(a[0] == b[0] or a[1] == b[1] for a, b in itertools.combinations(E, 2)):
            h.note_nontrivial((tuple(E), tuple(sorted(assigned))))
        refs_used = [r for (r, p) in assigned]
        if not many:
            h.ok("one_to_one", len(set(refs_used)) == len(refs_used))
        h.ok("assigned_pairs_overlap", all(a in E for a in assigned))
        if assigned:
            h.ok("assigned_meets_threshold", z3.And([beats(sc[r][p], thr) for r, p in assigned]))
        pa = {p for (r, p) in assigned}
        ra = {r for (r, p) in assigned}
        for (r, p) in E:
            if (r, p) in assigned:
                continue
            if p not in pa and r not in ra:
                h.ok("maximal", z3.Not(beats(sc[r][p], thr)), detail={"pair": [r + 1, p + 1]})
            else:
                alts = [good(sc[r2][p2], sc[r][p]) for (r2, p2) in assigned if p2 == p or (r2 == r)]
                h.ok("best_first", z3.Implies(beats(sc[r][p], thr), z3.Or(alts)), detail={"pair": [r + 1, p + 1]})
        # monotonicity: the stricter threshold thr2 can only remove matches
        try:
            M2 = match(thr2)
        except EngineSignal:
            raise
        except Exception as e:
            h.fail("terminates_with_result", detail="%s: %s" % (type(e).__name__, str(e)[:120]))
            return
        h.ok("monotone", all(M.get(p) == r for p, r in M2.items()), detail={"M1": M, "M2": M2})
        if case.get("reuse"):
            # the same UnmatchedInstancePair object matched first with this metric, then with another one: same result as on a fresh pair
            try:
                shared = PP.UnmatchedInstancePair(pred_arr, ref_arr)
                match(thr, pair=shared)
                Mr = match(thr, pair=shared, metric_obj=met2)
                Mf = match(thr, metric_obj=met2)
            except EngineSignal:
                raise
            except Exception as e:
                h.fail("terminates_with_result", detail="reused pair: %s: %s" % (type(e).__name__, str(e)[:120]))
                return
            h.ok("reusing_a_pair_object_with_another_metric_gives_the_fresh_result", Mr == Mf, detail={"reused": Mr, "fresh": Mf})
        h.witness(expect={"M": {str(k): v for k, v in M.items()}, "M2": {str(k): v for k, v in M2.items()}})

    def _decided(b):
        return ENG.known.get(_h(b)) is True

    from ..sym import shash

    def _h(b):
        return shash(z3.simplify(b))
    return explore_case(h, body, logic="QF_LRA", base=base, time_budget=case.get("time_budget", 3000))


# ================================================================================================ real-package side
def _realise(case):
    """find voxel counts inducing the same overlap flags, score order and threshold relations (QF_NIA, tiny)"""
    R, Pn, metric = case["R"], case["P"], case["metric"]
    flags = case["flags"]
    s = [[frac(x) for x in row] for row in case["scores"]]
    t1, t2 = frac(case["thr"]), frac(case["thr2"])
    n = [[z3.Int("n_%d_%d" % (r, p)) for p in range(Pn)] for r in range(R)]
    a = [z3.Int("a_%d" % r) for r in range(R)]
    b = [z3.Int("b_%d" % p) for p in range(Pn)]
    k1, k2 = z3.Int("k1"), z3.Int("k2")
    DEN = 1024
    for bound in (6, 14, 40):
        sol = z3.Solver()
        sol.set("timeout", 60000)
        for r in range(R):
            sol.add(a[r] >= 0, a[r] <= bound)
            for p in range(Pn):
                sol.add(n[r][p] >= 0, n[r][p] <= bound)
                sol.add((n[r][p] > 0) == bool(flags[r][p]))
        for p in range(Pn):
            sol.add(b[p] >= 0, b[p] <= bound)
        sol.add(k1 >= 0, k1 <= DEN, k2 >= 0, k2 <= DEN)
        Rs = [a[r] + z3.Sum([n[r][p] for p in range(Pn)]) for r in range(R)]
        Ps = [b[p] + z3.Sum([n[r][p] for r in range(R)]) for p in range(Pn)]
        for r in range(R):
            sol.add(Rs[r] > 0)
        for p in range(Pn):
            sol.add(Ps[p] > 0)

        def numden(r, p):
            if metric == "IOU":
                return n[r][p], Rs[r] + Ps[p] - n[r][p]
            return 2 * n[r][p], Rs[r] + Ps[p]
        E = [(r, p) for r in range(R) for p in range(Pn) if flags[r][p]]

        def rel(x, y, l, rgt):
            if x < y:
                sol.add(l < rgt)
            elif x == y:
                sol.add(l == rgt)
            else:
                sol.add(l > rgt)
        for (e, f) in itertools.combinations(E, 2):
            ne, de = numden(*e)
            nf, df = numden(*f)
            rel(s[e[0]][e[1]], s[f[0]][f[1]], ne * df, nf * de)
        for e in E:
            ne, de = numden(*e)
            rel(s[e[0]][e[1]], t1, ne * DEN, k1 * de)
            rel(s[e[0]][e[1]], t2, ne * DEN, k2 * de)
        rel(t1, t2, k1, k2)
        if str(sol.check()) == "sat":
            m = sol.model()
            nv = [[m.eval(n[r][p], True).as_long() for p in range(Pn)] for r in range(R)]
            av = [m.eval(x, True).as_long() for x in a]
            bv = [m.eval(x, True).as_long() for x in b]
            pred, ref = sets_1d_from_counts(nv, av, bv)
            return {"pred": pred, "ref": ref, "thr": m.eval(k1, True).as_long() / DEN, "thr2": m.eval(k2, True).as_long() / DEN}
    return None


def _real_match(pred, ref, metric, thr, many, serial):
    import numpy as np
    import panoptica
    from panoptica import NaiveThresholdMatching, UnmatchedInstancePair, Metric
    import panoptica._functionals as F
    from pv.stubs import SerialPool
    import multiprocessing
    F.Pool = SerialPool if serial else multiprocessing.Pool
    p = np.array(pred, dtype=np.uint8)
    r = np.array(ref, dtype=np.uint8)
    matcher = NaiveThresholdMatching(getattr(Metric, metric), thr, many)
    lm = matcher._match_instances(UnmatchedInstancePair(p.copy(), r.copy()))
    M = {int(k): int(v) for k, v in lm.labelmap.items()}
    # the public entry point must produce a result as well
    matcher.match_instances(UnmatchedInstancePair(p.copy(), r.copy()))
    return M


def _score(metric, X, Y, shape=None):
    if metric == "IOU":
        return iou_frac(X, Y)
    if metric == "DSC":
        return dice_frac(X, Y)
    return _assd_1d(X, Y)


def _assd_1d(X, Y):
    def border(S):
        return sorted(i for i in S if (i - 1) not in S or (i + 1) not in S)

    def asd(A, B):
        bA, bB = border(A), border(B)
        return Fraction(sum(min(abs(i - j) for j in bB) for i in bA), len(bA))
    return (asd(X, Y) + asd(Y, X)) / 2


def oracle(pred, ref, metric, thr, many, M, M2=None):
    """plain-Python statement of C03 on concrete arrays and the real matcher's assignment M (pred -> ref)."""
    inc = metric != "ASSD"
    Pv, Rv = voxel_sets(pred), voxel_sets(ref)
    from .realcommon import thr_frac
    t = thr_frac(thr)
    beats = (lambda s: s >= t) if inc else (lambda s: s <= t)
    good = (lambda a, b: a >= b) if inc else (lambda a, b: a <= b)
    sc = {(r, p): _score(metric, Rv[r], Pv[p]) for r in Rv for p in Pv if Rv[r] & Pv[p]}
    for p, r in M.items():
        if p not in Pv or r not in Rv:
            return "assigned_pairs_overlap", "assignment %s->%s uses a label that is not an instance" % (p, r)
        if (r, p) not in sc:
            return "assigned_pairs_overlap", "assigned pair (ref %s, pred %s) does not overlap" % (r, p)
        if not beats(sc[(r, p)]):
            return "assigned_meets_threshold", "assigned pair (ref %s, pred %s) has score %s vs threshold %s" % (r, p, sc[(r, p)], t)
    if not many and len(set(M.values())) != len(M):
        return "one_to_one", "reference assigned to several predictions: %s" % M
    ra = set(M.values())
    for (r, p), s in sc.items():
        if M.get(p) == r or not beats(s):
            continue
        if p not in M and r not in ra:
            return "maximal", "eligible pair (ref %s, pred %s, score %s) left with both partners unassigned" % (r, p, s)
        alts = [sc[(r2, p2)] for p2, r2 in M.items() if (p2 == p or r2 == r) and (r2, p2) in sc]
        if not any(good(x, s) for x in alts):
            return "best_first", "eligible pair (ref %s, pred %s, score %s) displaced only by worse pairs %s" % (r, p, s, alts)
    if M2 is not None and not all(M.get(p) == r for p, r in M2.items()):
        return "monotone", "stricter threshold added matches: %s vs %s" % (M2, M)
    return None


def _run_real(arrs, case, mode, expect):
    serial = mode in ("witness", "violation_serial")
    metric, many = case["metric"], case["many"]
    try:
        M = _real_match(arrs["pred"], arrs["ref"], metric, arrs["thr"], many, serial)
        M2 = _real_match(arrs["pred"], arrs["ref"], metric, arrs["thr2"], many, serial)
    except Exception as e:
        reason = "%s: %s" % (type(e).__name__, str(e)[:160])
        return {"violates": True, "reason": "terminates_with_result: " + reason, "observed": {"arrays": arrs, "exception": reason}}
    bad = oracle(arrs["pred"], arrs["ref"], metric, arrs["thr"], many, M, M2)
    if bad is None and case.get("reuse"):
        bad = _reuse_real(arrs, metric, many)
    obs = {"arrays": arrs, "M": {str(k): v for k, v in M.items()}, "M2": {str(k): v for k, v in M2.items()}}
    if mode == "witness":
        ok = expect is None or (obs["M"] == expect["M"] and obs["M2"] == expect["M2"])
        return {"match": ok, "why": None if ok else "assignment differs", "violates": bad is not None,
                "reason": None if bad is None else "%s: %s" % bad, "observed": obs}
    return {"violates": bad is not None, "reason": None if bad is None else "%s: %s" % bad, "observed": obs}


def _reuse_real(arrs, metric, many):
    """one UnmatchedInstancePair object matched with this metric, then with the other overlap metric: must equal the result on a fresh pair"""
    import numpy as np
    from panoptica import NaiveThresholdMatching, UnmatchedInstancePair, Metric
    other = "DSC" if metric != "DSC" else "IOU"
    p, r = np.array(arrs["pred"], dtype=np.uint8), np.array(arrs["ref"], dtype=np.uint8)
    shared = UnmatchedInstancePair(p.copy(), r.copy())
    NaiveThresholdMatching(getattr(Metric, metric), arrs["thr"], many)._match_instances(shared)
    a = dict(NaiveThresholdMatching(getattr(Metric, other), arrs["thr"], many)._match_instances(shared).labelmap)
    b = dict(NaiveThresholdMatching(getattr(Metric, other), arrs["thr"], many)._match_instances(UnmatchedInstancePair(p.copy(), r.copy())).labelmap)
    if a != b:
        return ("reusing_a_pair_object_with_another_metric_gives_the_fresh_result", "after matching with %s the same pair object gives %s with %s, a fresh pair gives %s" % (metric, a, other, b))
    return None


def real_abstract(case, mode, expect):
    arrs = _realise(case)
    if arrs is None:
        return {"error": "abstract case not realisable as voxel counts (spurious)"}
    return _run_real(arrs, case, mode, expect)


def real_search(case, mode, expect):
    """ASSD: no count realisation; search small 1-D label maps for a real violation of the same kind (confirmation only)."""
    import random
    if mode == "witness":
        return {"match": True, "why": "ASSD witnesses are not realised"}
    rnd = random.Random(1)
    want = (expect or {}).get("obligation")
    for it in range(4000):
        L = rnd.randint(3, 9)
        ref = [0] * L
        pred = [0] * L
        for arr, k in ((ref, case["R"]), (pred, case["P"])):
            pos = 0
            for lab in range(1, k + 1):
                pos += rnd.randint(0, 2)
                ln = rnd.randint(1, 3)
                for i in range(pos, min(L, pos + ln)):
                    arr[i] = lab
                pos += ln
        if not any(ref) or not any(pred):
            continue
        thr = rnd.choice([0, 0.25, 0.5, 1, 1.5, 2, 3])
        arrs = {"pred": pred, "ref": ref, "thr": thr, "thr2": max(0, thr - rnd.choice([0, 0.5, 1]))}
        out = _run_real(arrs, case, "violation_serial", None)
        if out.get("violates") and (want is None or out["reason"].startswith(want)):
            return _run_real(arrs, case, "violation", None)
    return {"error": "no real ASSD input found for the abstract counterexample"}


def real_arrays(case, mode, expect):
    arrs = {"pred": case["pred"], "ref": case["ref"], "thr": fl(case["thr"]), "thr2": fl(case.get("thr2", case["thr"]))}
    return _run_real(arrs, case, mode, expect)


REAL = {"abstract": real_abstract, "abstract_search": real_search, "arrays": real_arrays,
        "layerA_matcher": lambda case, mode, expect: LAM.real_matcher(case, mode, expect, {"assign": "assignment_follows_documented_best_first_for_any_label_values"})}
