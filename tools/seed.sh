#!/bin/bash
# tools/seed.sh <agent_out_dir> <seed_id> <property> : verify an agent-produced change in a fresh scratch worktree and store it under seeded/
OUT=$1; SID=$2; PROP=$3
D=/verif/seeded/$SID; mkdir -p $D
cp $OUT/patch.diff $D/patch.diff; cp $OUT/demo.py $D/demo.py; cp $OUT/note.txt $D/note.txt 2>/dev/null
W=/tmp/seedchk_$SID
cd /repo && git worktree add -q --detach $W HEAD || exit 9
cd $W
cp $D/demo.py demo.py
PANOPTICA_CITATION_REMINDER=false timeout 600 /venv/bin/python demo.py >/tmp/seed_clean_$SID.txt 2>&1; c=$?
git apply $D/patch.diff || { echo "PATCH FAILS TO APPLY"; cd /repo; git worktree remove --force $W; exit 9; }
PANOPTICA_CITATION_REMINDER=false timeout 600 /venv/bin/python demo.py >/tmp/seed_mut_$SID.txt 2>&1; m=$?
timeout 1200 /venv/bin/python -m pytest -q -p no:cacheprovider --timeout=900 unit_tests 2>&1 | tail -1 > /tmp/seed_tests_$SID.txt
t=$(cat /tmp/seed_tests_$SID.txt)
cd /repo && git worktree remove --force $W
python3 - <<PY
import json
note=open("$D/note.txt").read() if __import__("os").path.exists("$D/note.txt") else ""
json.dump({"property":"$PROP","seed_id":"$SID","needs":note.strip(),"verified":{"demo_exit_clean":$c,"demo_exit_with_patch":$m,"unit_tests_with_patch":"$t",
 "commands":["cd <scratch worktree of /repo HEAD> && /venv/bin/python demo.py","git apply patch.diff && /venv/bin/python demo.py","/venv/bin/python -m pytest -q unit_tests"]},
 "detected_by":[]}, open("$D/meta.json","w"), indent=1)
PY
echo "seed $SID: demo clean exit=$c, with patch exit=$m, tests: $t"
