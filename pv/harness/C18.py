"""C18 - what the aggregator writes is what the statistics loader reads (layer C with bounded symbolic strings, DESIGN 4/C18).

Symbolically executed (twin, f-strings and "lit".join rewritten to model calls): Panoptica_Aggregator.__init__ (header construction,
file handling), evaluate, _save_one_subject, _write_content, _read_first_row, _load_first_column_entries,
Panoptica_Statistic.from_file/__init__/get/get_one_subject.  csv / open / pathlib / os.remove / atexit are the in-memory file model.
Group names and subject names are bounded symbolic strings; each cell's value kind (finite real / NaN / +inf / uncomputable) is symbolic.
"""
from __future__ import annotations

import itertools

import z3

from ..sym import ENG, SNum, SBool, EngineSignal, Infeasible
from ..symstr import SStr, Rewrite, EXTRA_BUILTINS, mk
from ..run import H, explore_case, jsonable
from .. import fsmodel
from .common import fl

PROP = "C18"
FRESH_REPLAY = True      # counterexamples with a history are confirmed in a pristine interpreter
METRIC_KEYS = ["tp", "sq"]
KINDS = ["finite", "nan", "inf", "missing"]
META = {
    "bounds": {"quick": "1-2 groups with names of length 1..2 and one subject name of length 1..2 over printable ASCII (32..126); 2 metric columns; the value kind of one cell per group symbolic "
                        "(finite real / NaN / +inf / uncomputable), the other cells finite reals; plus 2 subjects with 1 group",
               "thorough": "names of length <= 3, 3 groups"},
    "stubs": ["csv / open / pathlib / os.remove / atexit := in-memory file model (rows as lists; a written number is read back as the same number)",
              "the evaluator is a stub object exposing group names, metric keys and per-group result dictionaries", "multiprocessing.Lock := model lock"],
    "assumptions": ["csv quoting and float(repr(x)) == x are trusted; they run for real on every witness replay (solver-chosen names, plus values rescaled to 1e-5 and 1e17 magnitudes)",
                    "names longer than the bound and non-ASCII names are outside the claim; -inf is not demanded to be missing (unreachable from real results)"],
    "nontrivial_rule": "paths on which some name contains one of '-', '_', ' ' or an upper-case letter, or some cell is not finite",
}


def cases(tier):
    L = 2 if tier == "quick" else 3
    out = []
    for ng in (1, 2):
        for lens in itertools.product(range(1, L + 1), repeat=ng):
            for sl in (1, 2):
                out.append({"name": "g%s_s%d" % ("".join(map(str, lens)), sl), "glens": list(lens), "slens": [sl]})
    out.append({"name": "g1_s1s1", "glens": [1], "slens": [1, 1]})
    out.append({"name": "reopen_with_groups_reordered", "glens": [1, 1], "slens": [1, 1], "reopen": True})
    out.append({"name": "g2_s1s2", "glens": [2], "slens": [1, 2]})
    out.append({"name": "g1_s2s1", "glens": [1], "slens": [2, 1]})      # the longer subject name is recorded first
    # option combination: the aggregator's log_times flag and whether the results carry a computation time vary independently
    out.append({"name": "times_option_combination", "glens": [1, 1], "slens": [1], "times": True})
    if tier == "thorough":
        out.append({"name": "g111_s1", "glens": [1, 1, 1], "slens": [1]})
    # the REAL evaluator behind the aggregator: every value its result reports has a column and is read back, whatever other evaluator was
    # created or queried in the process before (a solver-chosen prefix)
    out.append({"name": "real_evaluator_columns", "what": "evaluator"})
    return out


EV_PRE = ["nothing", "narrow_evaluator_reads_keys", "narrow_aggregator_constructed", "wide_other_instance_metrics_reads_keys"]
EV_INPUT = ([[1, 1, 0, 2]], [[1, 0, 0, 2]])        # 1x4 matched instances: label 1 IoU 1/2, label 2 IoU 1


def _run_evaluator_case(case):
    from ..twin import Twin
    from ..symnp import SArr
    fs = fsmodel.FS()
    mods, fopen = fsmodel.make_modules(fs)
    eb = dict(EXTRA_BUILTINS)
    eb["open"] = fopen
    pre = z3.Int("pre")
    ctx = {}

    def decode(mo):
        return {"what": "evaluator", "pre": EV_PRE[jsonable(pre, mo)]}
    h = H(PROP, case["name"], decode, replay_kind="evaluator", max_witnesses=8)

    def mk_ev(inst, glob):
        P = ctx["P"]
        return P.Panoptica_Evaluator(expected_input=P.InputType.MATCHED_INSTANCE, instance_metrics=inst, global_metrics=glob, verbose=False)

    def body():
        fs.__init__()
        fs.dirs.add("/out")
        # a pristine copy of the package per path: process-global state left by one history must not leak into the next explored path
        T = Twin(fakes=mods, ast_transformers=[Rewrite()], extra_builtins=eb)
        P = ctx["P"] = T.panoptica
        PA = T.mod("panoptica.panoptica_aggregator")
        PS = T.mod("panoptica.panoptica_statistics")
        Metric = P.Metric
        op = EV_PRE[ENG.concretize(pre, 0, len(EV_PRE) - 1)]
        try:
            if op == "narrow_evaluator_reads_keys":
                mk_ev([Metric.DSC, Metric.IOU], [Metric.DSC]).resulting_metric_keys
            elif op == "narrow_aggregator_constructed":
                PA.Panoptica_Aggregator(mk_ev([Metric.DSC, Metric.IOU], []), "/out/narrow.tsv")
            elif op == "wide_other_instance_metrics_reads_keys":
                mk_ev([Metric.DSC, Metric.IOU, Metric.RVD], [Metric.DSC, Metric.IOU, Metric.RVD]).resulting_metric_keys
            ev = mk_ev([Metric.DSC, Metric.IOU], [Metric.DSC, Metric.IOU])
            agg = PA.Panoptica_Aggregator(ev, "/out/r.tsv")
            arr = lambda x: SArr([v for row in x for v in row], "uint8", (1, 4))
            agg.evaluate(arr(EV_INPUT[0]), arr(EV_INPUT[1]), "s1")
            want = mk_ev([Metric.DSC, Metric.IOU], [Metric.DSC, Metric.IOU]).evaluate(arr(EV_INPUT[0]), arr(EV_INPUT[1]), verbose=False)["ungrouped"][0].to_dict()
            st = PS.Panoptica_Statistic.from_file("/out/r.tsv")
        except EngineSignal:
            raise
        except Exception as e:
            h.fail("write_and_load_complete", detail="%s: %s" % (type(e).__name__, _estr(e)))
            return
        h.note_nontrivial(op)
        h.note_nontrivial("global:" + op)
        for k, v in want.items():
            if isinstance(v, (list, tuple)) or v is None or isinstance(v, str):
                continue
            try:
                got = st.get("ungrouped", k)
            except EngineSignal:
                raise
            except Exception as e:
                h.fail("every_reported_value_has_a_column", detail={"key": k, "error": "%s: %s" % (type(e).__name__, _estr(e))})
                continue
            fin = not (isinstance(v, float) and (v != v or v in (float("inf"), float("-inf"))))
            if fin:
                ok = len(got) == 1 and got[0] is not None and bool(SBool((SNum(got[0]) == SNum(v)).t)) if not isinstance(got[0] if got else None, type(None)) else False
                h.ok("finite_value_recovered_exactly", ok, detail={"key": k, "written": repr(v), "read": repr(got)})
        h.witness(expect=None)
    return explore_case(h, body, base=[pre >= 0, pre < len(EV_PRE)], concretize_div=64, time_budget=3000)


def run_case(case):
    if case.get("what") == "evaluator":
        return _run_evaluator_case(case)
    from ..twin import Twin
    fs = fsmodel.FS()
    mods, fopen = fsmodel.make_modules(fs)
    eb = dict(EXTRA_BUILTINS)
    eb["open"] = fopen
    T = Twin(fakes=mods, ast_transformers=[Rewrite()], extra_builtins=eb)
    PA = T.mod("panoptica.panoptica_aggregator")
    PS = T.mod("panoptica.panoptica_statistics")
    glens, slens = case["glens"], case["slens"]
    G, S = len(glens), len(slens)
    gch = [[z3.Int("g%d_%d" % (g, k)) for k in range(glens[g])] for g in range(G)]
    sch = [[z3.Int("s%d_%d" % (s, k)) for k in range(slens[s])] for s in range(S)]
    base = [z3.And(c >= 32, c <= 126) for row in gch + sch for c in row]
    # group names are distinct dictionary keys of the class-group definition; subject names are distinct
    for a, b in itertools.combinations(range(G), 2):
        if glens[a] == glens[b]:
            base.append(z3.Or([x != y for x, y in zip(gch[a], gch[b])]))
    for a, b in itertools.combinations(range(S), 2):
        if slens[a] == slens[b]:
            base.append(z3.Or([x != y for x, y in zip(sch[a], sch[b])]))
    val = {(s, g, m): z3.Real("v_%d_%d_%d" % (s, g, m)) for s in range(S) for g in range(G) for m in range(len(METRIC_KEYS))}
    kind = {(s, g): z3.Int("k_%d_%d" % (s, g)) for s in range(S) for g in range(G)}     # kind of the metric-0 cell
    base += [z3.And(k >= 0, k <= 3) for k in kind.values()]

    def decode(mo):
        gn = ["".join(chr(jsonable(c, mo)) for c in row) for row in gch]
        sn = ["".join(chr(jsonable(c, mo)) for c in row) for row in sch]
        cells = {}
        for (s, g, m), v in val.items():
            k = KINDS[jsonable(kind[(s, g)], mo)] if m == 0 else "finite"
            cells["%d,%d,%d" % (s, g, m)] = {"kind": k, "value": jsonable(v, mo)}
        d = {"groups": gn, "subjects": sn, "metrics": METRIC_KEYS, "cells": cells, "reopen": bool(case.get("reopen"))}
        if case.get("times"):
            d["log_times"], d["has_time"] = bool(jsonable(z3.Bool("log_times"), mo)), bool(jsonable(z3.Bool("has_time"), mo))
        return d
    h = H(PROP, case["name"], decode, replay_kind="roundtrip", max_witnesses=25)

    class FakeResult:
        def __init__(self, d):
            self._d = d
            self.computation_time = None

        def to_dict(self):
            return dict(self._d)

    def body():
        fs.__init__()
        fs.dirs.add("/out")
        gnames = [mk(row) for row in gch]
        snames = [mk(row) for row in sch]
        cell = {}
        for (s, g, m), v in val.items():
            k = KINDS[ENG.concretize(kind[(s, g)], 0, 3)] if m == 0 else "finite"
            cell[(s, g, m)] = {"finite": SNum(v, "float64"), "nan": float("nan"), "inf": float("inf"), "missing": None}[k], k
        cur = {"s": 0}
        opts = {}
        if case.get("times"):
            opts["log_times"] = bool(SBool(z3.Bool("log_times")))
            opts["has_time"] = bool(SBool(z3.Bool("has_time")))

        class Ev:
            segmentation_class_groups_names = list(gnames)
            resulting_metric_keys = list(METRIC_KEYS)

            def evaluate(self, pred, ref, **kw):
                s = cur["s"]
                out = []
                for g in range(G):
                    d = {}
                    for m, key in enumerate(METRIC_KEYS):
                        v, k = cell[(s, g, m)]
                        if k != "missing":
                            d[key] = v
                    fr = FakeResult(d)
                    if opts.get("has_time"):
                        fr.computation_time = 1.5
                    out.append((gnames[g], (fr, None)))
                return _AssocDict(out)
        interesting = any(isinstance(n, SStr) for n in gnames + snames)
        try:
            agg = PA.Panoptica_Aggregator(Ev(), "/out/results.tsv", **({"log_times": opts["log_times"]} if case.get("times") else {}))
            for s in range(S):
                if case.get("reopen") and s == S - 1:
                    # a later session on the same file whose evaluator lists the same groups in reverse order: it either refuses the file
                    # (nothing wrong gets recorded) or records the subject under the right columns
                    class Ev2(Ev):
                        segmentation_class_groups_names = list(reversed(gnames))
                    for lk in (PA.filelock, PA.inevalfilelock):
                        lk.held = False
                    try:
                        agg = PA.Panoptica_Aggregator(Ev2(), "/out/results.tsv")
                    except AssertionError:
                        h.note_nontrivial("refused")
                        h.witness(expect=None)
                        return
                cur["s"] = s
                agg.evaluate(None, None, snames[s])
            st = agg.make_statistic()
        except EngineSignal:
            raise
        except Exception as e:
            h.fail("write_and_load_complete", detail="%s: %s" % (type(e).__name__, _estr(e)))
            return
        h.note_nontrivial(tuple(k for (_, k) in cell.values()))
        for s in range(S):
            try:
                one = st.get_one_subject(snames[s])
            except EngineSignal:
                raise
            except Exception as e:
                h.fail("subject_found", detail="%s: %s" % (type(e).__name__, _estr(e)))
                continue
            for g in range(G):
                row = _lookup(one, gnames[g])
                if row is None:
                    h.fail("group_found", detail={"group": g})
                    continue
                for m, key in enumerate(METRIC_KEYS):
                    got = _lookup(row, key, default=_MISSING)
                    v, k = cell[(s, g, m)]
                    if got is _MISSING:
                        h.fail("metric_found", detail={"group": g, "metric": key})
                    elif k == "finite":
                        h.ok("finite_value_recovered_exactly", got is not None and isinstance(got, SNum) and (got.t == v.t), detail={"cell": [s, g, m], "got": repr(got)})
                    else:
                        h.ok("non_finite_reported_missing", got is None, detail={"cell": [s, g, m], "kind": k, "got": repr(got)})
        h.witness(expect=None)
    return explore_case(h, body, base=base, const_hash=True, time_budget=3000)


_MISSING = object()


def _estr(e):
    try:
        return str(e)[:160]
    except TypeError:
        return "<message with a symbolic string>"


class _AssocDict:
    """mapping with symbolic-string keys (the evaluator's result dictionary): lookup by (possibly forking) equality"""

    def __init__(self, items):
        self.items_ = items

    def __getitem__(self, k):
        for kk, v in self.items_:
            e = (kk == k)
            if e is True or (e is not False and bool(e)):
                return v
        raise KeyError(k)

    def __contains__(self, k):
        try:
            self[k]
            return True
        except KeyError:
            return False

    def keys(self):
        return [k for k, _ in self.items_]

    def items(self):
        return list(self.items_)


def _lookup(d, key, default=None):
    for k, v in d.items():
        e = (k == key)
        if e is True or (e is not False and bool(e)):
            return v
    return default


# ================================================================================================ real-package side
def _real_roundtrip(groups, subjects, metrics, cells, scale=None, reopen=False, log_times=None, has_time=False):
    import math
    import os
    import shutil
    import tempfile
    from panoptica import Panoptica_Aggregator

    def value(s, g, m):
        c = cells["%d,%d,%d" % (s, g, m)]
        if c["kind"] == "finite":
            v = fl(c["value"])
            return (v if v != 0 else 0.5) * scale if scale else v
        return {"nan": float("nan"), "inf": float("inf"), "missing": None}[c["kind"]]

    class Res:
        def __init__(self, d):
            self._d, self.computation_time = d, (1.5 if has_time else None)

        def to_dict(self):
            return dict(self._d)

    class Ev:
        segmentation_class_groups_names = list(groups)
        resulting_metric_keys = list(metrics)

        def __init__(self):
            self.s = 0

        def evaluate(self, pred, ref, **kw):
            out = {}
            for g, gn in enumerate(groups):
                d = {}
                for m, key in enumerate(metrics):
                    v = value(self.s, g, m)
                    if v is not None:
                        d[key] = v
                out[gn] = (Res(d), None)
            return out
    tmp = tempfile.mkdtemp(prefix="pv_c18_")
    try:
        ev = Ev()
        agg = Panoptica_Aggregator(ev, os.path.join(tmp, "results.tsv"), **({} if log_times is None else {"log_times": log_times}))
        for s, sn in enumerate(subjects):
            if reopen and s == len(subjects) - 1:
                class Ev2(Ev):
                    segmentation_class_groups_names = list(reversed(groups))

                    def evaluate(self2, pred, ref, **kw):
                        return Ev.evaluate(self2, pred, ref, **kw)
                try:
                    ev = Ev2()
                    agg = Panoptica_Aggregator(ev, os.path.join(tmp, "results.tsv"))
                except AssertionError:
                    return None        # the reordered session is refused: nothing wrong is recorded
            ev.s = s
            agg.evaluate(None, None, sn)
        st = agg.make_statistic()
        for s, sn in enumerate(subjects):
            one = st.get_one_subject(sn)
            for g, gn in enumerate(groups):
                if gn not in one:
                    return "group_found: group %r missing in %r" % (gn, list(one))
                for m, key in enumerate(metrics):
                    if key not in one[gn]:
                        return "metric_found: %r/%r" % (gn, key)
                    got, v = one[gn][key], value(s, g, m)
                    finite = v is not None and not math.isnan(v) and not math.isinf(v)
                    if finite and got != v:
                        return "finite_value_recovered_exactly: subject %r group %r metric %r wrote %r, loader returned %r" % (sn, gn, key, v, got)
                    if not finite and got is not None:
                        return "non_finite_reported_missing: subject %r group %r metric %r wrote %r, loader returned %r" % (sn, gn, key, v, got)
        return None
    except Exception as e:
        return "write_and_load_complete: %s: %s" % (type(e).__name__, str(e)[:200])
    finally:
        shutil.rmtree(tmp, ignore_errors=True)
        try:
            os.remove(os.path.join(os.path.dirname(tmp), "panoptica_aggregator_tmp.tsv"))
        except OSError:
            pass


def real_roundtrip(case, mode, expect):
    bad = _real_roundtrip(case["groups"], case["subjects"], case["metrics"], case["cells"], reopen=case.get("reopen", False),
                          log_times=case.get("log_times"), has_time=bool(case.get("has_time")))
    if bad is None and not case.get("reopen") and "log_times" not in case:
        # trusted text layer: the same table with magnitudes that print in exponent notation
        for sc in (1e-5, 1e17, 1 / 3):
            bad = _real_roundtrip(case["groups"], case["subjects"], case["metrics"], case["cells"], scale=sc)
            if bad is not None:
                break
    return {"match": True, "violates": bad is not None, "reason": bad, "observed": None}


def real_evaluator(case, mode, expect):
    import math
    import os
    import shutil
    import tempfile
    import numpy as np
    from panoptica import Panoptica_Evaluator, Panoptica_Aggregator, InputType, Metric
    from panoptica.panoptica_statistics import Panoptica_Statistic
    from . import realcommon as RC
    RC.use_serial_pool(True)
    tmp = tempfile.mkdtemp(prefix="c18ev_")
    bad = None

    def mk_ev(inst, glob):
        return Panoptica_Evaluator(expected_input=InputType.MATCHED_INSTANCE, instance_metrics=inst, global_metrics=glob, verbose=False)
    try:
        op = case["pre"]
        if op == "narrow_evaluator_reads_keys":
            mk_ev([Metric.DSC, Metric.IOU], [Metric.DSC]).resulting_metric_keys
        elif op == "narrow_aggregator_constructed":
            Panoptica_Aggregator(mk_ev([Metric.DSC, Metric.IOU], []), os.path.join(tmp, "narrow.tsv"))
        elif op == "wide_other_instance_metrics_reads_keys":
            mk_ev([Metric.DSC, Metric.IOU, Metric.RVD], [Metric.DSC, Metric.IOU, Metric.RVD]).resulting_metric_keys
        ev = mk_ev([Metric.DSC, Metric.IOU], [Metric.DSC, Metric.IOU])
        out = os.path.join(tmp, "r.tsv")
        agg = Panoptica_Aggregator(ev, out)
        p, r = np.array(EV_INPUT[0], dtype=np.uint8), np.array(EV_INPUT[1], dtype=np.uint8)
        agg.evaluate(p, r, "s1")
        want = mk_ev([Metric.DSC, Metric.IOU], [Metric.DSC, Metric.IOU]).evaluate(p, r, verbose=False)["ungrouped"][0].to_dict()
        st = Panoptica_Statistic.from_file(out)
        for k, v in want.items():
            if isinstance(v, (list, tuple, str)) or v is None:
                continue
            try:
                got = st.get("ungrouped", k)
            except Exception as e:
                bad = "every_reported_value_has_a_column: after %s the value %s=%r reported by the evaluator cannot be read back (%s: %s)" % (op, k, v, type(e).__name__, str(e)[:80])
                break
            if isinstance(v, float) and not math.isfinite(v):
                continue
            if len(got) != 1 or got[0] is None or abs(float(got[0]) - float(v)) > 1e-12:
                bad = "finite_value_recovered_exactly: after %s %s written %r, read %r" % (op, k, v, got)
                break
    except Exception as e:
        bad = "write_and_load_complete: %s: %s" % (type(e).__name__, _estr(e))
    finally:
        shutil.rmtree(tmp, ignore_errors=True)
        try:
            os.remove(os.path.join(os.path.dirname(tmp), "panoptica_aggregator_tmp.tsv"))
        except OSError:
            pass
    return {"match": True, "violates": bad is not None, "reason": bad, "observed": None}


REAL = {"roundtrip": real_roundtrip, "evaluator": real_evaluator}
