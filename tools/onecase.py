"""debug helper: run one harness case in-process and print slow solver queries
usage: .venv/bin/python tools/onecase.py C02 quick direct_len2"""
import importlib
import sys
import time

sys.path.insert(0, "/verif")
from pv.sym import ENG, Engine  # noqa

mod = importlib.import_module("pv.harness." + sys.argv[1])
oc = Engine.check


def nc(self, *a, **k):
    t = time.time()
    r = oc(self, *a, **k)
    dt = time.time() - t
    if dt > 0.5:
        print("slow %.1fs" % dt, r[0], [str(x)[:200] for x in a][:1], flush=True)
    return r


Engine.check = nc
case = [c for c in mod.cases(sys.argv[2]) if c["name"] == sys.argv[3]][0]
t = time.time()
r = mod.run_case(case)
print(r["stats"], r["error"], len(r["violations"]), "%.1fs" % (time.time() - t))
for v in r["violations"][:4]:
    print(v["obligation"], v["case"], v["detail"])
print(r["obligations"])
