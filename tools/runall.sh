#!/bin/bash
# tools/runall.sh [tier] : run every registered check once on the unchanged tree, print exit code and wall time
TIER=${1:-quick}
cd /verif
for id in C01 C02 C03 C04 C05 C06 C07 C08 C09 C10 C11 C12 C13 C14 C15 C16 C17 C18 C19 C20; do
  s=$(date +%s)
  out=$(./check $id --tier $TIER 2>&1 | grep -v "^WARNING conda" | tail -3)
  rc=$?
  e=$(date +%s)
  echo "$id rc=${PIPESTATUS[0]} $((e-s))s | $(echo "$out" | head -1 | cut -c1-200)"
  echo "$out" | grep -E "VIOLATION|INCONCLUSIVE|ERROR" | head -3
done
