#!/bin/bash
# tools/mut.sh <patch.diff> <ID> [tier]  : apply a scratch change to /repo, run the check, always revert
P=$(readlink -f "$1"); ID=$2; TIER=${3:-quick}
cd /repo || exit 9
if ! git diff --quiet; then echo "/repo dirty"; exit 9; fi
git apply "$P" || { echo "patch does not apply"; exit 9; }
cd /verif && VERIF_NO_EVIDENCE=1 ./check $ID --tier $TIER 2>&1 | grep -v "^WARNING conda" | tail -${LINES_OUT:-6} | cut -c1-400
rc=${PIPESTATUS[0]}
cd /repo && git checkout -- . && git status --short | head -3
rm -rf /verif/replays/$ID
echo "exit=$rc"
