"""Bounded symbolic strings (SStr): concrete length (chosen by the harness / by forks), symbolic code points.

CPython refuses proxy objects in f-strings and ``str.join``; the twin loader therefore rewrites ``f"..."`` and
``"lit".join(x)`` into calls of SYMFMT_ / SYMJOIN_ (names without leading underscores: class bodies mangle ``__x``).
An SStr whose code points are all concrete collapses to a real ``str`` (so that ``d["tp"]`` finds its key).
"""
from __future__ import annotations

import ast
import builtins

import z3

from .sym import ENG, Sym, SBool, SNum, lift


def _z(c):
    return c if isinstance(c, z3.ExprRef) else z3.IntVal(c)


def mk(cps):
    """code points -> str if all concrete else SStr"""
    cps = [lift(c) if isinstance(c, z3.ExprRef) else c for c in cps]
    if builtins.all(isinstance(c, builtins.int) for c in cps):
        return "".join(chr(c) for c in cps)
    return SStr(cps)


def cps_of(x):
    if isinstance(x, SStr):
        return list(x.c)
    if isinstance(x, builtins.str):
        return [ord(ch) for ch in x]
    raise TypeError("not a string: %r" % (x,))


class SStr(Sym):
    __slots__ = ("c",)

    def __init__(self, cps):
        self.c = list(cps)

    def __len__(self):
        return len(self.c)

    def __hash__(self):
        return 0 if ENG.const_hash else self._hash_concretize()

    def _hash_concretize(self):
        # outside const-hash mode a symbolic string key would have to be enumerated; the C18 harness runs in const-hash mode
        raise TypeError("symbolic string used as a hash key outside const-hash mode")

    def __eq__(self, o):
        if not isinstance(o, (builtins.str, SStr)):
            return False
        oc = cps_of(o)
        if len(oc) != len(self.c):
            return False
        r = z3.simplify(z3.And([_z(a) == _z(b) for a, b in zip(self.c, oc)] + [z3.BoolVal(True)]))
        if z3.is_true(r):
            return True
        if z3.is_false(r):
            return False
        return SBool(r)

    def __ne__(self, o):
        r = self.__eq__(o)
        return (not r) if isinstance(r, builtins.bool) else ~r

    def __add__(self, o):
        if not isinstance(o, (builtins.str, SStr)):
            return NotImplemented
        return mk(self.c + cps_of(o))

    def __radd__(self, o):
        if not isinstance(o, (builtins.str, SStr)):
            return NotImplemented
        return mk(cps_of(o) + self.c)

    def __contains__(self, sub):
        sc = cps_of(sub)
        n, k = len(self.c), len(sc)
        if k == 0:
            return True
        alts = []
        for i in range(n - k + 1):
            alts.append(z3.And([_z(self.c[i + j]) == _z(sc[j]) for j in range(k)]))
        if not alts:
            return False
        return builtins.bool(SBool(z3.Or(alts)))

    def __getitem__(self, k):
        if isinstance(k, slice):
            return mk(self.c[k])
        return mk([self.c[k]])

    def __iter__(self):
        for c in self.c:
            yield mk([c])

    def _positions(self, sep):
        sc = cps_of(sep)
        if len(sc) != 1:
            raise NotImplementedError("multi-character separator")
        sp = sc[0]
        return [i for i, ch in enumerate(self.c) if (ch == sp if isinstance(ch, builtins.int) else ENG.branch(ch == sp))]

    def split(self, sep=None, maxsplit=-1):
        if sep is None:
            if maxsplit >= 0:
                raise NotImplementedError("whitespace split with maxsplit")
            parts, cur = [], []
            for ch in self.c:
                if self._is_ws(ch):          # decided per character (forks on a symbolic one)
                    if cur:
                        parts.append(mk(cur))
                    cur = []
                else:
                    cur.append(ch)
            if cur:
                parts.append(mk(cur))
            return parts
        idx = self._positions(sep)
        if maxsplit >= 0:
            idx = idx[:maxsplit]
        parts, cur = [], []
        for i, ch in enumerate(self.c):
            if i in idx:
                parts.append(mk(cur))
                cur = []
            else:
                cur.append(ch)
        parts.append(mk(cur))
        return parts

    def rsplit(self, sep=None, maxsplit=-1):
        if sep is None:
            raise NotImplementedError("whitespace split")
        idx = self._positions(sep)
        if maxsplit >= 0:
            idx = idx[len(idx) - maxsplit:] if maxsplit else []
        parts, cur = [], []
        for i, ch in enumerate(self.c):
            if i in idx:
                parts.append(mk(cur))
                cur = []
            else:
                cur.append(ch)
        parts.append(mk(cur))
        return parts

    def lower(self):
        out = []
        for ch in self.c:
            if isinstance(ch, builtins.int):
                out.append(ord(chr(ch).lower()))
            else:
                out.append(lift(z3.If(z3.And(ch >= 65, ch <= 90), ch + 32, ch)))
        return mk(out)

    def upper(self):
        out = []
        for ch in self.c:
            if isinstance(ch, builtins.int):
                out.append(ord(chr(ch).upper()))
            else:
                out.append(lift(z3.If(z3.And(ch >= 97, ch <= 122), ch - 32, ch)))
        return mk(out)

    def startswith(self, p):
        pc = cps_of(p)
        if len(pc) > len(self.c):
            return False
        return builtins.bool(SBool(z3.And([_z(a) == _z(b) for a, b in zip(self.c, pc)] + [z3.BoolVal(True)])))

    def endswith(self, p):
        pc = cps_of(p)
        if len(pc) > len(self.c):
            return False
        return builtins.bool(SBool(z3.And([_z(a) == _z(b) for a, b in zip(self.c[len(self.c) - len(pc):], pc)] + [z3.BoolVal(True)])))

    def _is_ws(self, ch):
        if isinstance(ch, builtins.int):
            return chr(ch).isspace()
        return ENG.branch(z3.Or(ch == 32, z3.And(ch >= 9, ch <= 13)))

    def strip(self, chars=None):
        return self.lstrip(chars).rstrip(chars) if isinstance(self.lstrip(chars), SStr) else self.lstrip(chars).strip(chars)

    def lstrip(self, chars=None):
        if chars is not None:
            raise NotImplementedError("strip(chars) on symbolic string")
        i = 0
        while i < len(self.c) and self._is_ws(self.c[i]):
            i += 1
        return mk(self.c[i:])

    def rstrip(self, chars=None):
        if chars is not None:
            raise NotImplementedError("strip(chars) on symbolic string")
        j = len(self.c)
        while j > 0 and self._is_ws(self.c[j - 1]):
            j -= 1
        return mk(self.c[:j])

    def concretize(self, model):
        return "".join(chr(model.eval(_z(ch), model_completion=True).as_long()) for ch in self.c)

    def __repr__(self):
        return "SStr(%s)" % [ch if isinstance(ch, builtins.int) else builtins.str(ch) for ch in self.c]

    def __str__(self):
        raise TypeError("str() of a symbolic string outside the twin")


def symfmt(*parts):
    out = ""
    for p in parts:
        if isinstance(p, SStr):
            out = out + p
        elif isinstance(p, builtins.str):
            out = out + p
        elif isinstance(p, Sym):
            raise TypeError("formatting a symbolic number is not modelled")
        else:
            out = out + builtins.str(p)
    return out


def symjoin(sep, items):
    out = ""
    first = True
    for it in items:
        if not first:
            out = out + sep
        if not isinstance(it, (builtins.str, SStr)):
            raise TypeError("sequence item: expected str instance, %s found" % type(it).__name__)
        out = out + it
        first = False
    return out


class _StrMeta(type):
    def __instancecheck__(cls, x):
        return isinstance(x, (builtins.str, SStr))

    def __call__(cls, x="", *a, **k):
        if isinstance(x, SStr):
            return x
        return builtins.str(x, *a, **k)


class sym_str(metaclass=_StrMeta):
    join = builtins.str.join
    lower = builtins.str.lower


class Rewrite(ast.NodeTransformer):
    """f"..."  -> SYMFMT_(...);   "lit".join(x) -> SYMJOIN_("lit", x)"""

    def visit_JoinedStr(self, node):
        self.generic_visit(node)
        args = []
        for v in node.values:
            if isinstance(v, ast.FormattedValue):
                if v.format_spec is not None or v.conversion not in (-1,):
                    return node          # format specs / conversions: leave the f-string alone
                args.append(v.value)
            else:
                args.append(v)
        return ast.copy_location(ast.Call(func=ast.Name(id="SYMFMT_", ctx=ast.Load()), args=args, keywords=[]), node)

    def visit_Call(self, node):
        self.generic_visit(node)
        f = node.func
        if isinstance(f, ast.Attribute) and f.attr == "join" and isinstance(f.value, ast.Constant) and isinstance(f.value.value, builtins.str) and len(node.args) == 1:
            return ast.copy_location(ast.Call(func=ast.Name(id="SYMJOIN_", ctx=ast.Load()), args=[f.value] + node.args, keywords=[]), node)
        return node


class HashVal:
    """hash(<symbolic string>): modelled as injective - two hash values are equal exactly when the strings are equal
    (collisions of Python's str hash are outside the model)"""

    def __init__(self, s):
        self.s = s

    def __eq__(self, o):
        if isinstance(o, HashVal):
            e = (self.s == o.s)
            return e if isinstance(e, builtins.bool) else builtins.bool(e)
        return False

    def __ne__(self, o):
        return not self.__eq__(o)

    def __hash__(self):
        return 0


def sym_hash(x):
    if isinstance(x, SStr):
        return HashVal(x)
    return builtins.hash(x)


EXTRA_BUILTINS = {"SYMFMT_": symfmt, "SYMJOIN_": symjoin, "str": sym_str, "hash": sym_hash}
