"""helpers shared by harnesses (symbolic side) and by their real-package replays"""
from __future__ import annotations

import itertools
from fractions import Fraction

import z3


def dyadic(name, lo_num, hi_num, den=1024):
    """a real threshold k/den with integer k (exactly representable as float64); returns (real term, int var, constraints)"""
    k = z3.Int(name + "_k")
    return z3.ToReal(k) / den, k, [k >= lo_num, k <= hi_num]


def frac(v):
    """JSON number (int / float / {'frac':[n,d]}) -> Fraction"""
    if isinstance(v, dict) and "frac" in v:
        return Fraction(v["frac"][0], v["frac"][1])
    if isinstance(v, float):
        return Fraction(v)
    return Fraction(v)


def fl(v):
    """JSON number -> float via one correctly rounded division"""
    if isinstance(v, dict) and "frac" in v:
        return v["frac"][0] / v["frac"][1]
    if isinstance(v, dict) and "float" in v:
        return float(v["float"])
    return float(v)


def close(a, b, tol=1e-9):
    """numeric agreement between twin (exact) and real (float) outputs"""
    import math
    if a is None or b is None:
        return a is None and b is None
    if isinstance(a, dict) and "float" in a:
        a = float(a["float"])
    if isinstance(b, dict) and "float" in b:
        b = float(b["float"])
    a = fl(a) if isinstance(a, dict) else float(a)
    b = fl(b) if isinstance(b, dict) else float(b)
    if math.isnan(a) or math.isnan(b):
        return math.isnan(a) and math.isnan(b)
    if math.isinf(a) or math.isinf(b):
        return a == b
    return abs(a - b) <= tol * max(1.0, abs(a), abs(b))


def sets_1d_from_counts(n, a, b):
    """build 1-D (pred, ref) label lists from intersection counts n[r][p] and the ref-only / pred-only counts.
    Instance ids are 1-based: ref r+1, pred p+1."""
    pred, ref = [], []
    R, Pn = len(a), len(b)
    for r in range(R):
        for p in range(Pn):
            for _ in range(n[r][p]):
                ref.append(r + 1)
                pred.append(p + 1)
    for r in range(R):
        for _ in range(a[r]):
            ref.append(r + 1)
            pred.append(0)
    for p in range(Pn):
        for _ in range(b[p]):
            ref.append(0)
            pred.append(p + 1)
    # one background voxel so that arrays are never empty
    ref.append(0)
    pred.append(0)
    return pred, ref


def voxel_sets(arr):
    """label -> set of flat voxel indices (labels != 0) for a nested-list / ndarray label map"""
    import numpy as np
    a = np.asarray(arr)
    out = {}
    flat = a.ravel().tolist()
    for i, v in enumerate(flat):
        if v != 0:
            out.setdefault(int(v), set()).add(i)
    return out


def iou_frac(X, Y):
    u = len(X | Y)
    return Fraction(len(X & Y), u) if u else Fraction(0)


def dice_frac(X, Y):
    s = len(X) + len(Y)
    return Fraction(2 * len(X & Y), s) if s else Fraction(0)
