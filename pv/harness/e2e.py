"""End-to-end helpers shared by C01 / C10 / C11: run the whole twin pipeline on symbolic label maps and an independent oracle of the
documented procedure evaluated on the voxel COUNTS of the current path (every count is pinned by an n-ary engine decision, so a path is the
class of all inputs with these counts and threshold relations; the comparison implementation == oracle then holds for the whole class)."""
from __future__ import annotations

import itertools
from fractions import Fraction

import z3

from ..sym import ENG, SNum, SBool, EngineSignal, declare_bounds
from ..symnp import SArr, cnum

NAMES = {"IOU": "", "DSC": "_dsc", "RVD": "_rvd", "ASSD": "_assd"}


def sym_arrays(shape, K, dtype, prefix=("p", "r")):
    n = 1
    for s in shape:
        n *= s
    pv = [z3.Int("%s%d" % (prefix[0], i)) for i in range(n)]
    rv = [z3.Int("%s%d" % (prefix[1], i)) for i in range(n)]
    base = []
    for v in pv + rv:
        declare_bounds(v, 0, K)
        base.append(z3.And(v >= 0, v <= K))
    return pv, rv, base


def conc(x):
    """metric value of the twin -> Fraction / float (values are concrete on a path thanks to concretize_div)"""
    if isinstance(x, SNum):
        c = x.concrete()
        if c is None:
            from ..sym import interval, INT
            iv = interval(x.t) if x.t.sort() == INT else None
            if iv is not None and iv[1] - iv[0] <= 64:
                return Fraction(ENG.concretize(x.t, iv[0], iv[1]))      # e.g. the component count reported by a CC stub
            raise ValueError("symbolic metric value %r (concretize_div off?)" % (x,))
        return Fraction(c)
    if isinstance(x, float):
        return x if (x != x or x in (float("inf"), float("-inf"))) else Fraction(x).limit_denominator(10 ** 9)
    if x is None:
        return None
    return Fraction(x)


def build_evaluator(T, cfg, thr_m=None, thr_d=None):
    P = T.panoptica
    Metric = P.Metric
    IMm = T.mod("panoptica.instance_matcher")
    kw = {"expected_input": getattr(P.InputType, cfg["input_type"])}
    if cfg["input_type"] == "SEMANTIC":
        b = cfg.get("backend")
        kw["instance_approximator"] = P.ConnectedComponentsInstanceApproximator(None if b is None else getattr(P.CCABackend, b))
    if cfg["input_type"] != "MATCHED_INSTANCE":
        mm = getattr(Metric, cfg["matching_metric"])
        thr = thr_m if thr_m is not None else cfg["matching_threshold"]
        if cfg.get("matcher") == "merge":
            kw["instance_matcher"] = IMm.MaximizeMergeMatching(mm, thr)
        else:
            kw["instance_matcher"] = P.NaiveThresholdMatching(mm, thr, cfg.get("many", False))
    kw["instance_metrics"] = [getattr(Metric, m) for m in cfg["metrics"]]
    kw["global_metrics"] = [getattr(Metric, m) for m in cfg.get("global_metrics", [])]
    if cfg.get("decision_metric"):
        kw["decision_metric"] = getattr(Metric, cfg["decision_metric"])
        kw["decision_threshold"] = thr_d if thr_d is not None else cfg["decision_threshold"]
    return P.Panoptica_Evaluator(**kw)


def run_twin(T, ev, pa, ra, metrics):
    """-> dict(tp, fp, fn, n_pred, n_ref, lists{m: sorted Fractions}, sq.., rq) with concrete values"""
    P = T.panoptica
    res = ev.evaluate(pa, ra, verbose=False)["ungrouped"][0]
    out = {"tp": int(conc(res.tp)), "fp": int(conc(res.fp)), "fn": int(conc(res.fn)), "n_pred": int(conc(res.num_pred_instances)), "n_ref": int(conc(res.num_ref_instances)), "lists": {}}
    for m in metrics:
        l = res.get_list_metric(getattr(P.Metric, m), P.MetricMode.ALL)
        out["lists"][m] = sorted(conc(x) for x in l)
        out["sq" + NAMES[m]] = conc(getattr(res, "sq" + NAMES[m]))
    out["rq"] = conc(res.rq)
    return out


class Counts:
    """voxel counts of the instances defined by per-voxel label terms, pinned on the current path"""

    def __init__(self, plab, rlab, kp, kr):
        n = len(plab)
        self.P = {p: ENG.concretize(z3.Sum([z3.If(v == p, 1, 0) for v in plab]), 0, n) for p in range(1, kp + 1)}
        self.R = {r: ENG.concretize(z3.Sum([z3.If(v == r, 1, 0) for v in rlab]), 0, n) for r in range(1, kr + 1)}
        self.I = {}
        for r in range(1, kr + 1):
            for p in range(1, kp + 1):
                if self.R[r] and self.P[p]:
                    self.I[(r, p)] = ENG.concretize(z3.Sum([z3.If(z3.And(a == p, b == r), 1, 0) for a, b in zip(plab, rlab)]), 0, min(self.R[r], self.P[p]))
                else:
                    self.I[(r, p)] = 0
        self.P = {p: c for p, c in self.P.items() if c}
        self.R = {r: c for r, c in self.R.items() if c}

    def score(self, metric, r, p):
        I, R, Pc = self.I[(r, p)], self.R[r], self.P[p]
        if metric == "IOU":
            return Fraction(I, R + Pc - I)
        if metric == "DSC":
            return Fraction(2 * I, R + Pc)
        if metric == "RVD":
            return Fraction(Pc - R, R)
        raise ValueError(metric)


def beats(metric, s, thr):
    """score vs (possibly symbolic) threshold in the metric's preferred direction -> Python bool (forks when undecided)"""
    t = thr if isinstance(thr, SNum) else SNum(z3.RealVal(Fraction(thr)))
    sn = SNum(z3.RealVal(s))
    return bool((sn <= t) if metric in ("ASSD", "RVD") else (sn >= t))


def oracle(C, cfg, thr_m, thr_d):
    """documented procedure on the counts -> dict like run_twin, or None if the matching is not uniquely determined"""
    if cfg["input_type"] == "MATCHED_INSTANCE":
        pairs = [(r, r) for r in sorted(C.R) if r in C.P]
    else:
        mm = cfg["matching_metric"]
        cand = [(C.score(mm, r, p), r, p) for r in C.R for p in C.P if C.I[(r, p)] > 0]
        elig = [c for c in cand if beats(mm, c[0], thr_m)]
        for a, b in itertools.combinations(elig, 2):
            if a[0] == b[0] and (a[1] == b[1] or a[2] == b[2]):
                return None       # two competing candidate pairs with equal score: the statement's uniqueness clause
        elig.sort(key=lambda x: x[0], reverse=mm not in ("ASSD", "RVD"))
        ur, up, pairs = set(), set(), []
        for s, r, p in elig:
            if r in ur or p in up:
                continue
            ur.add(r)
            up.add(p)
            pairs.append((r, p))
    dm = cfg.get("decision_metric")
    if dm:
        pairs = [(r, p) for r, p in pairs if beats(dm, C.score(dm, r, p), thr_d)]
    tp = len(pairs)
    out = {"tp": tp, "fp": len(C.P) - tp, "fn": len(C.R) - tp, "n_pred": len(C.P), "n_ref": len(C.R), "lists": {}}
    for m in cfg["metrics"]:
        if m == "ASSD":
            continue
        out["lists"][m] = sorted(C.score(m, r, p) for r, p in pairs)
    return out


def compare(h, got, want, metrics, prefix=""):
    h.ok(prefix + "instance_counts", got["n_pred"] == want["n_pred"] and got["n_ref"] == want["n_ref"], detail={"library": [got["n_pred"], got["n_ref"]], "definition": [want["n_pred"], want["n_ref"]]})
    h.ok(prefix + "tp_fp_fn", (got["tp"], got["fp"], got["fn"]) == (want["tp"], want["fp"], want["fn"]),
         detail={"library": [got["tp"], got["fp"], got["fn"]], "definition": [want["tp"], want["fp"], want["fn"]]})
    for m in metrics:
        if m in want["lists"]:
            h.ok(prefix + "per_tp_values", got["lists"][m] == want["lists"][m], detail={"metric": m, "library": [str(x) for x in got["lists"][m]], "definition": [str(x) for x in want["lists"][m]]})
            if want["tp"] > 0 and want["lists"][m]:
                mean = sum(want["lists"][m]) / len(want["lists"][m])
                h.ok(prefix + "sq_is_mean", got["sq" + NAMES[m]] == mean, detail={"metric": m})
    if want["tp"] > 0:
        h.ok(prefix + "rq", got["rq"] == Fraction(want["tp"]) / (want["tp"] + Fraction(want["fp"], 2) + Fraction(want["fn"], 2)))
