"""tools/seedtable.py : (re)generate the seeds table for DESIGN.md section 9 from seeded/matrix*.txt and update seeded/<id>/meta.json.

Every line of a matrix file is `<seed> check=<ID> exit=<code> <secs>s | <first detail line>`; later lines for the same (seed, check)
override earlier ones (re-runs after a strengthening are appended)."""
import glob
import json
import os
import re
import sys

V = "/verif"
runs = {}
first = {}
for f in sorted(glob.glob(os.path.join(V, "seeded", "matrix*.txt"))):
    for ln in open(f):
        m = re.match(r"(\S+) check=(\S+) exit=(\d+) (?:(\d+)s|\([^)]*\)) \|\s*(.*)", ln)
        if m:
            runs[(m.group(1), m.group(2))] = (int(m.group(3)), int(m.group(4) or 0), m.group(5).strip())
            first.setdefault((m.group(1), m.group(2)), int(m.group(3)))

rows = []
for d in sorted(glob.glob(os.path.join(V, "seeded", "C*_*"))):
    sid = os.path.basename(d)
    prop = sid.split("_")[0]
    meta = json.load(open(os.path.join(d, "meta.json")))
    det = sorted(c for (s, c), r in runs.items() if s == sid and r[0] == 1)
    meta["detected_by"] = [{"check": c, "tier": "quick", "obligation": (re.search(r"obligation=(\S+)", runs[(sid, c)][2]) or [None, None])[1]} for c in det]
    own = runs.get((sid, prop))
    meta["own_check_exit"] = None if own is None else own[0]
    json.dump(meta, open(os.path.join(d, "meta.json"), "w"), indent=1)
    note = " ".join(meta.get("needs", "").split())
    note = re.sub(r"^Change( \([^)]*\))?: ", "", note)[:230].replace("|", "/")
    if own is None:
        verdict = "not run"
    elif own[0] == 1:
        verdict = "**caught**: `%s`" % (re.search(r"obligation=(\S+)", own[2]) or [None, "?"])[1]
    elif own[0] == 0:
        verdict = "missed"
    else:
        verdict = "inconclusive (exit 2)"
    f0 = first.get((sid, prop))
    if own is not None and f0 is not None and f0 != own[0]:
        verdict = {0: "first run: missed", 2: "first run: inconclusive (exit 2)", 1: "first run: caught"}.get(f0, "first run: exit %s" % f0) + "; after strengthening " + verdict
    others = ", ".join(c for c in det if c != prop) or "—"
    rows.append("| %s | %s | %s | %s |" % (sid, note, verdict, others))

sel = sys.argv[1] if len(sys.argv) > 1 else ""
print("| seed | what the change is / needs (from the author's note) | own property's quick check | also caught by |")
print("|---|---|---|---|")
for r in rows:
    if sel in r.split("|")[1]:
        print(r)
own_runs = [(s, c) for (s, c) in runs if s.split("_")[0] == c and sel in s]
print("\ncaught by own check: %d / %d; caught by some check: %d" % (
    sum(1 for k in own_runs if runs[k][0] == 1), len(own_runs),
    len({s for (s, c), r in runs.items() if r[0] == 1 and sel in s})), file=sys.stderr)
