"""C04 - relabelling after matching preserves both segmentations (layer A, DESIGN 4/C04).

Symbolically executed (twin): map_instance_labels, _map_labels (incl. np.arange with a symbolic length, modelled as a lazily
indexed identity array with explicit in-bounds decisions), InstanceLabelMap.add_labelmap_entry/get_one_to_one_dictionary,
UnmatchedInstancePair/MatchedInstancePair.__init__ (+ _unique_without_zeros, _check_array_integrity), _ProcessingPair.copy.
Label VALUES are free ordered integers in [1, 2^w) (capped at 2^24), the dtype and the label map (which prediction is
matched to which reference) are concrete per case.
"""
from __future__ import annotations

import itertools

import z3

from ..sym import ENG, SNum, SBool, EngineSignal, declare_bounds
from ..symnp import SArr, WriteToProtected
from ..run import H, explore_case, jsonable

from . import layera_match as LAM

PROP = "C04"
LIM = 1 << 24
DT_BITS = {"uint8": 8, "uint16": 16, "uint32": 32, "uint64": 64}
META = {
    "bounds": {"quick": "<= 3 prediction and <= 2 reference labels with free values in [1, min(2^w, 2^24)), one voxel per label; every label map (prediction -> matched reference or unmatched, many-to-one included); dtypes uint8/16/32/64",
               "thorough": "same with <= 3 reference labels"},
    "stubs": [],
    "assumptions": ["more than 3 unmatched predictions are outside the symbolic run: overflow of (largest reference label + number of unmatched predictions) past 2^w is reachable with one unmatched prediction and a reference label at 2^w-1",
                    "NumPy 1.26.4 semantics as modelled (np.array(python ints, dtype) wraps silently; value-based promotion)"],
    "nontrivial_rule": "label maps with at least one matched and one unmatched prediction",
}


def label_maps(npred, nref):
    """each prediction: 0 = unmatched, j = matched to reference j"""
    return list(itertools.product(range(nref + 1), repeat=npred))


def cases(tier):
    out = []
    nref_max = 2 if tier == "quick" else 3
    for dt in DT_BITS:
        for npred in (1, 2, 3):
            for nref in range(1, nref_max + 1):
                lms = label_maps(npred, nref)
                for i in range(0, len(lms), 9):
                    out.append({"name": "%s_p%d_r%d_m%02d" % (dt, npred, nref, i), "dtype": dt, "npred": npred, "nref": nref, "maps": lms[i:i + 9]})
    # the same obligations through the WHOLE matcher (match_instances incl. overlap-pair extraction), caller arrays write-protected
    out += LAM.matcher_cases(tier, PROP)
    return out


def run_case(case):
    if case.get("what") == "layerA_matcher":
        return LAM.run_matcher_case(case, PROP, {"assign": "matched_label_carried_and_fresh_labels_distinct_through_the_matcher"})
    from ..twin import get_twin
    T = get_twin()
    IM = T.mod("panoptica.instance_matcher")
    PP = T.mod("panoptica.utils.processing_pair")
    ILM = T.mod("panoptica.utils.instancelabelmap")
    dt, npred, nref = case["dtype"], case["npred"], case["nref"]
    lim = min(LIM, 1 << DT_BITS[dt])
    LP = [z3.Int("LP%d" % i) for i in range(1, npred + 1)]
    LR = [z3.Int("LR%d" % i) for i in range(1, nref + 1)]
    base = []
    for L in (LP, LR):
        prev = z3.IntVal(0)
        for l in L:
            base.append(l > prev)
            prev = l
            declare_bounds(l, 1, lim - 1)
        base.append(prev < lim)
    cur = {}
    # geometry: one voxel per prediction label, one per reference label, one background voxel
    n = npred + nref + 1

    def decode(m):
        lp = [jsonable(x, m) for x in LP]
        lr = [jsonable(x, m) for x in LR]
        return {"dtype": dt, "pred": lp + [0] * (nref + 1), "ref": [0] * npred + lr + [0], "map": list(cur["lm"]), "pred_labels": lp, "ref_labels": lr}
    h = H(PROP, case["name"], decode, replay_kind="relabel", max_witnesses=len(case["maps"]) * 2)

    def body_for(lm):
        def body():
            cur["lm"] = lm
            if any(lm) and not all(lm):
                h.note_nontrivial(str(lm))
            pa = SArr(list(LP) + [0] * (nref + 1), dt).protect("caller prediction")
            ra = SArr([0] * npred + list(LR) + [0], dt).protect("caller reference")
            try:
                pair = PP.UnmatchedInstancePair(pa, ra)
                labelmap = ILM.InstanceLabelMap()
                for i, j in enumerate(lm):
                    if j:
                        labelmap.add_labelmap_entry(SNum(LP[i]), SNum(LR[j - 1]))
                mp = IM.map_instance_labels(pair.copy(), labelmap)
                out_p, out_r = mp.prediction_arr, mp.reference_arr
            except EngineSignal:
                raise
            except WriteToProtected as e:
                h.fail("no_input_mutation", detail=str(e))
                return
            except Exception as e:
                h.fail("completes", detail="%s: %s" % (type(e).__name__, str(e)[:140]))
                return
            from ..symnp import cnum
            oc = [cnum(c) for c in out_p.cells]
            orc = [cnum(c) for c in out_r.cells]
            h.ok("shape_and_dtype_kept", out_p.shape == (n,) and out_r.shape == (n,) and out_p.dtype.kind == "u" and out_r.dtype == out_p.dtype)
            h.ok("reference_unchanged", z3.And([orc[npred + j] == LR[j] for j in range(nref)] + [orc[i] == 0 for i in range(npred)] + [orc[n - 1] == 0]))
            h.ok("foreground_unchanged", z3.And([oc[i] != 0 for i in range(npred)] + [oc[i] == 0 for i in range(npred, n)]), detail={"out": oc})
            for i, j in enumerate(lm):
                if j:
                    h.ok("matched_prediction_carries_reference_label", oc[i] == LR[j - 1], detail={"pred": i + 1, "ref": j})
                else:
                    h.ok("unmatched_label_differs_from_every_reference_label", z3.And([oc[i] != LR[k] for k in range(nref)]), detail={"pred": i + 1, "out": oc[i]})
            for a, b in itertools.combinations(range(npred), 2):
                same = lm[a] != 0 and lm[a] == lm[b]
                h.ok("partition_preserved", (oc[a] == oc[b]) if same else (oc[a] != oc[b]), detail={"preds": [a + 1, b + 1], "out": [oc[a], oc[b]]})
            h.witness(expect={"out_pred": oc})
        return body
    merged = None
    for lm in case["maps"]:
        r = explore_case(h, body_for(tuple(lm)), logic="QF_NIA", incremental=False, const_hash=True, base=base, time_budget=400, timeout_ms=20000)
        if merged is None:
            merged = r
        else:
            for k, v in r["stats"].items():
                merged["stats"][k] = merged["stats"].get(k, 0) + v
            merged["error"] = merged["error"] or r["error"]
            merged["wall_s"] += r["wall_s"]
            merged["functions"] = sorted(set(merged["functions"]) | set(r["functions"]))
    merged["violations"], merged["witnesses"], merged["obligations"] = h.violations, h.witnesses, h.obligations
    merged["nontrivial"] = sorted(map(str, h.nontrivial))
    return merged


# ================================================================================================ real-package side
def real_relabel(case, mode, expect):
    import numpy as np
    from panoptica import UnmatchedInstancePair
    from panoptica.instance_matcher import map_instance_labels
    from panoptica.utils.instancelabelmap import InstanceLabelMap
    dt = case["dtype"]
    pred = np.array(case["pred"], dtype=dt)
    ref = np.array(case["ref"], dtype=dt)
    pred0, ref0 = pred.copy(), ref.copy()
    lp, lr, lm = case["pred_labels"], case["ref_labels"], case["map"]
    labelmap = InstanceLabelMap()
    for i, j in enumerate(lm):
        if j:
            labelmap.add_labelmap_entry(int(lp[i]), int(lr[j - 1]))
    try:
        mp = map_instance_labels(UnmatchedInstancePair(pred, ref).copy(), labelmap)
        out_p, out_r = np.asarray(mp.prediction_arr), np.asarray(mp.reference_arr)
    except Exception as e:
        return {"match": False, "violates": True, "reason": "completes: %s: %s" % (type(e).__name__, str(e)[:160]), "observed": None}
    obs = {"out_pred": out_p.tolist(), "out_ref": out_r.tolist()}
    bad = None
    npred = len(lp)
    if not (np.array_equal(pred, pred0) and np.array_equal(ref, ref0)):
        bad = "no_input_mutation: the caller's arrays were modified"
    elif out_r.tolist() != ref0.tolist():
        bad = "reference_unchanged: %s" % out_r.tolist()
    elif [bool(x) for x in out_p.tolist()] != [bool(x) for x in pred0.tolist()]:
        bad = "foreground_unchanged: input %s output %s" % (pred0.tolist(), out_p.tolist())
    else:
        o = [int(x) for x in out_p.tolist()]
        for i, j in enumerate(lm):
            if j and o[i] != lr[j - 1]:
                bad = "matched_prediction_carries_reference_label: prediction %d -> %d, reference label %d" % (lp[i], o[i], lr[j - 1])
            if not j and o[i] in lr:
                bad = "unmatched_label_differs_from_every_reference_label: prediction %d got label %d" % (lp[i], o[i])
        for a, b in itertools.combinations(range(npred), 2):
            same = lm[a] != 0 and lm[a] == lm[b]
            if (o[a] == o[b]) != same and bad is None:
                bad = "partition_preserved: predictions %d,%d -> %d,%d" % (lp[a], lp[b], o[a], o[b])
    ok = True
    if mode == "witness" and expect is not None:
        ok = [int(x) for x in expect["out_pred"]] == [int(x) for x in out_p.tolist()]
    return {"match": ok, "why": None if ok else "relabelled prediction differs from the twin: %s" % (expect,), "violates": bad is not None, "reason": bad, "observed": obs}


REAL = {"relabel": real_relabel, "layerA_matcher": lambda case, mode, expect: LAM.real_matcher(case, mode, expect, {"assign": "matched_label_carried_and_fresh_labels_distinct_through_the_matcher"})}
