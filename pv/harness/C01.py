"""C01 - reported panoptic results equal the published definitions, end to end (layer B, DESIGN 4/C01).

Symbolically executed (twin), in ONE run per path: Panoptica_Evaluator.evaluate -> _evaluate_group -> panoptic_evaluate -> crop_data/_get_paired_crop/_get_bbox_nd,
InstanceApproximator.approximate_instances (CC contract stubs), _handle_zero_instances_cases, NaiveThresholdMatching.match_instances
(_calc_overlapping_labels, _calc_matching_metric_of_overlapping_labels, real sorted), map_instance_labels/_map_labels, evaluate_matched_instance,
_evaluate_instance and the Dice/IoU/RVD kernels, PanopticaResult and its calculators.
Both label maps are fully symbolic; matching and decision thresholds are free reals.  The oracle is the documented procedure evaluated on the
voxel counts of the path (pv/harness/e2e.py); paths on which two competing candidate pairs tie are excluded as the statement excludes them.
"""
from __future__ import annotations

import itertools

import z3

from ..sym import ENG, SNum, SBool, EngineSignal
from ..symnp import SArr, WriteToProtected
from ..run import H, explore_case, jsonable
from .. import stubs
from . import e2e
from . import realcommon as RC
from .common import fl

PROP = "C01"
META = {
    "bounds": {"quick": "1-D label maps: unmatched 3 voxels (labels 0..2; matching metric IoU and Dice; optional IoU decision threshold), matched 4 voxels, semantic 4 voxels (values 0..1, both CCA back ends via contract stubs); "
                        "uint8 and uint64 inputs; free real matching / decision thresholds; metrics DSC, IOU, RVD",
               "thorough": "unmatched 4 voxels and 2-D 2x2, matched 5, semantic 5 and 2-D 2x2 (values 0..2)"},
    "stubs": ["cc3d / scipy.ndimage.label := connected-component contract", "multiprocessing.Pool := serial order-preserving starmap"],
    "assumptions": ["arrays larger than the bound and more than 2 (instance input) / 4 (semantic input) instances per side are outside the end-to-end run (covered compositionally by C03/C02)",
                    "ASSD end to end is outside this run (kernel: C07); float64 as exact rationals", "paths with tied competing candidates are excluded (uniqueness clause of the statement)"],
    "nontrivial_rule": "paths with at least one true positive and at least one false positive or false negative",
}
METRICS = ["DSC", "IOU", "RVD"]


WARMUP = ([1, 1, 0], [1, 0, 0])       # the 3-D volume (shape 1x1x3) an evaluator has seen before, in the multi-step case


def cases(tier):
    out = []
    um_shape = (3,) if tier == "quick" else (4,)
    cfgs = []
    if tier == "quick":
        cfgs.append({"input_type": "UNMATCHED_INSTANCE", "matching_metric": "IOU", "decision_metric": None, "shape": um_shape, "K": 2, "dtype": "uint8"})
        cfgs.append({"input_type": "UNMATCHED_INSTANCE", "matching_metric": "DSC", "decision_metric": "IOU", "shape": um_shape, "K": 2, "dtype": "uint64"})
        cfgs.append({"input_type": "MATCHED_INSTANCE", "matching_metric": None, "decision_metric": "IOU", "shape": (4,), "K": 2, "dtype": "uint8"})
        for be in (None, "cc3d"):
            cfgs.append({"input_type": "SEMANTIC", "backend": be, "matching_metric": "IOU", "decision_metric": None, "shape": (4,), "K": 1, "dtype": "uint8"})
        # multi-step: the same evaluator has evaluated a 3-D volume before; the 1-D maps (two semantic classes) are still approximated the documented way
        cfgs.append({"input_type": "SEMANTIC", "backend": None, "matching_metric": "IOU", "decision_metric": None, "shape": (3,), "K": 2, "dtype": "uint8", "warmup3d": True})
    else:
        for mm in ("IOU", "DSC"):
            for dm in (None, "IOU"):
                cfgs.append({"input_type": "UNMATCHED_INSTANCE", "matching_metric": mm, "decision_metric": dm, "shape": um_shape, "K": 2, "dtype": "uint8"})
        cfgs.append({"input_type": "UNMATCHED_INSTANCE", "matching_metric": "IOU", "decision_metric": None, "shape": um_shape, "K": 2, "dtype": "uint64"})
        cfgs.append({"input_type": "MATCHED_INSTANCE", "matching_metric": None, "decision_metric": "IOU", "shape": (5,), "K": 2, "dtype": "uint8"})
        cfgs.append({"input_type": "MATCHED_INSTANCE", "matching_metric": None, "decision_metric": None, "shape": (5,), "K": 2, "dtype": "uint16"})
        for be in (None, "cc3d"):
            cfgs.append({"input_type": "SEMANTIC", "backend": be, "matching_metric": "IOU", "decision_metric": None, "shape": (5,), "K": 1, "dtype": "uint8"})
        cfgs.append({"input_type": "UNMATCHED_INSTANCE", "matching_metric": "IOU", "decision_metric": None, "shape": (2, 2), "K": 2, "dtype": "uint8"})
        cfgs.append({"input_type": "SEMANTIC", "backend": None, "matching_metric": "IOU", "decision_metric": None, "shape": (2, 2), "K": 2, "dtype": "int64"})
    for c in cfgs:
        K = c["K"]
        # split each configuration over worker processes by the labels of the first voxel
        for p0, r0 in itertools.product(range(K + 1), repeat=2):
            d = dict(c)
            d["fix"] = [p0, r0]
            d["name"] = "%s_%s_%s_dm%s_%s_%s_f%d%d" % (c["input_type"][:3], c.get("backend"), c["matching_metric"], c["decision_metric"], "x".join(map(str, c["shape"])), c["dtype"], p0, r0)
            d["metrics"] = METRICS
            out.append(d)
    return out


def run_case(case):
    from ..twin import get_twin
    T = get_twin()
    shape = tuple(case["shape"])
    pv, rv, base = e2e.sym_arrays(shape, case["K"], case["dtype"])
    base += [pv[0] == case["fix"][0], rv[0] == case["fix"][1]]
    thr_m, thr_d = z3.Real("thr_m"), z3.Real("thr_d")
    base += [thr_m >= 0, thr_m <= 1, thr_d >= 0, thr_d <= 1]
    it = case["input_type"]

    def decode(m):
        return {"cfg": {k: case.get(k) for k in ("input_type", "backend", "matching_metric", "decision_metric", "metrics", "warmup3d")}, "shape": list(shape), "dtype": case["dtype"],
                "pred": [jsonable(v, m) for v in pv], "ref": [jsonable(v, m) for v in rv], "thr_m": jsonable(thr_m, m), "thr_d": jsonable(thr_d, m)}
    h = H(PROP, case["name"], decode, replay_kind="e2e", max_witnesses=60)

    def body():
        pa = SArr(list(pv), case["dtype"], shape).protect("caller prediction")
        ra = SArr(list(rv), case["dtype"], shape).protect("caller reference")
        ev = e2e.build_evaluator(T, case, SNum(thr_m), SNum(thr_d))
        try:
            if case.get("warmup3d"):
                ev.evaluate(SArr(list(WARMUP[0]), "uint8", (1, 1, 3)), SArr(list(WARMUP[1]), "uint8", (1, 1, 3)), verbose=False)
                stubs.reset_calls()
            got = e2e.run_twin(T, ev, pa, ra, METRICS)
        except EngineSignal:
            raise
        except WriteToProtected as e:
            h.fail("no_input_mutation", detail=str(e))
            return
        except Exception as e:
            h.fail("evaluation_completes", detail="%s: %s" % (type(e).__name__, str(e)[:140]))
            return
        if it == "SEMANTIC":
            calls = [c for c in stubs.CALLS if c[0] in ("cc3d", "label")]
            pred_nonempty = bool(SBool(z3.Or([v != 0 for v in pv])))
            ref_nonempty = bool(SBool(z3.Or([v != 0 for v in rv])))
            n = len(pv)
            zero = [z3.IntVal(0)] * n
            k = 0
            plab = rlab = zero
            if pred_nonempty and k < len(calls):
                plab = calls[k][1]["L"]
                k += 1
            if ref_nonempty and k < len(calls):
                rlab = calls[k][1]["L"]
            C = e2e.Counts(plab, rlab, n, n)
        else:
            C = e2e.Counts(pv, rv, case["K"], case["K"])
        want = e2e.oracle(C, case, SNum(thr_m), SNum(thr_d))
        if want is None:
            return       # tie between competing candidates
        e2e.compare(h, got, want, METRICS)
        if want["tp"] > 0 and (want["fp"] > 0 or want["fn"] > 0):
            h.note_nontrivial((want["tp"], want["fp"], want["fn"], tuple(str(x) for x in want["lists"]["IOU"])))
        h.witness(expect={"tp": got["tp"], "fp": got["fp"], "fn": got["fn"]})
    return explore_case(h, body, base=base, concretize_div=64, time_budget=3000)


# ================================================================================================ real-package side
def real_e2e(case, mode, expect):
    import numpy as np
    RC.use_serial_pool(mode == "witness")
    cfg = dict(case["cfg"])
    cfg["matching_threshold"] = fl(case["thr_m"])
    cfg["decision_threshold"] = fl(case["thr_d"])
    shape = tuple(case["shape"])
    pred = np.array(case["pred"], dtype=case["dtype"]).reshape(shape)
    ref = np.array(case["ref"], dtype=case["dtype"]).reshape(shape)
    p0, r0 = pred.copy(), ref.copy()
    mets = cfg["metrics"]
    try:
        ev = RC.build_evaluator(cfg)
        if cfg.get("warmup3d"):
            ev.evaluate(np.array(WARMUP[0], dtype=np.uint8).reshape(1, 1, 3), np.array(WARMUP[1], dtype=np.uint8).reshape(1, 1, 3), verbose=False)
        res = ev.evaluate(pred, ref, verbose=False)["ungrouped"][0]
        o = RC.result_to_dict(res, mets)
    except Exception as e:
        return {"match": False, "violates": True, "reason": "evaluation_completes: %s: %s" % (type(e).__name__, str(e)[:160]), "observed": None}
    bad = None
    if not (np.array_equal(pred, p0) and np.array_equal(ref, r0)):
        bad = ("no_input_mutation", "evaluate modified the caller's arrays")
    want = RC.reference_pipeline(p0, r0, cfg)
    if bad is None and want["unique"]:
        bad = RC.definition_oracle(o, want, mets) or RC.bookkeeping_oracle(o, mets)
    ok = mode != "witness" or expect is None or all(o[k] == expect[k] for k in ("tp", "fp", "fn"))
    return {"match": ok, "why": None if ok else "twin %s real %s" % (expect, {k: o[k] for k in ("tp", "fp", "fn")}), "violates": bad is not None,
            "reason": None if bad is None else "%s: %s" % bad, "observed": {k: o[k] for k in ("tp", "fp", "fn", "num_pred", "num_ref")}}


REAL = {"e2e": real_e2e}
