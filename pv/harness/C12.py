"""C12 - class groups are evaluated independently and completely (layer B, DESIGN 4/C12).

Symbolically executed (twin): SegmentationClassGroups.__init__/has_defined_labels_for/items/keys, LabelGroup.__init__/extract_label/__call__,
LabelMergeGroup.__call__, Panoptica_Evaluator.__init__/evaluate/_evaluate_group, InputType.__call__, the processing-pair constructors.
panoptic_evaluate is an UNINTERPRETED function: its arguments are recorded and compared with the restriction of the inputs to the group.
"""
from __future__ import annotations

import z3

from ..sym import ENG, SNum, SBool, EngineSignal, declare_bounds
from ..symnp import SArr, WriteToProtected, cnum
from ..run import H, explore_case, jsonable

PROP = "C12"
GROUPSETS = {
    # name -> list of (group name, kind, labels, single_instance); label 4 (and -1) deliberately undefined in some sets
    "plain": [("a", "plain", [1, 2], False), ("b", "plain", [3], False)],
    "mixed": [("a", "merge", [1, 2], False), ("b", "plain", [3], True), ("c", "plain", [4], False)],
    "merge_first": [("m", "merge", [2, 3], False), ("one", "plain", [1], False)],
    "list_form": [("group_0", "plain", [1], False), ("group_1", "plain", [2, 3, 4], False)],
    # label values beyond one byte (voxel domain {0, 1, 256, 512}): single-instance group 256, plain group {1, 512}
    "wide_labels": [("a", "plain", [1, 512], False), ("organ", "plain", [256], True)],
    # two user names that collide once the class lower-cases them ({"Lesion": [1], "lesion": [2]}): only the later definition survives, so the
    # effective definition is the single group "lesion" = {2}; label 1 is then an undefined label and must be rejected, not silently dropped
    # (a constructor that refuses the colliding names outright is accepted as well)
    "colliding_names": [("lesion", "plain", [2], False)],
}
COLLIDING = [("Lesion", [1]), ("lesion", [2])]
WIDE = [0, 1, 256, 512]
META = {
    "bounds": {"quick": "label maps 1-D 2-3 voxels per array with labels 0..4 (-1..4 for signed semantic input); group definitions plain / merge / single-instance / list form / wide labels / two names colliding after lower-casing; input types semantic (int64, uint8), unmatched, matched",
               "thorough": "1-D 4 voxels (3 for signed input and for the wide-label group set)"},
    "stubs": ["panoptic_evaluate := uninterpreted (arguments recorded)"],
    "assumptions": ["'equals evaluating the restricted arrays without groups' is reduced to 'panoptic_evaluate receives exactly the restricted arrays, pair class and threshold'; evaluation being a function of these is C15/C01",
                    "group definitions are the four listed partitions; arrays larger than the bound are outside the claim"],
    "nontrivial_rule": "paths whose arrays contain labels of at least two different groups",
}


def cases(tier):
    out = []
    for gs in GROUPSETS:
        for it, dt in (("SEMANTIC", "int64"), ("SEMANTIC", "uint8"), ("UNMATCHED_INSTANCE", "uint8"), ("MATCHED_INSTANCE", "uint16")):
            if gs == "wide_labels" and dt == "uint8":
                dt = "int32" if it == "SEMANTIC" else "uint16"
            if tier == "quick":
                # 3 voxels per array for the richest group set, 2 for the others
                n = 3 if (gs == "mixed" and it == "UNMATCHED_INSTANCE") else 2
            else:
                n = 3 if (dt == "int64" or gs == "wide_labels") else 4      # (wide labels with 4 voxels: 4^8 value classes, beyond the time budget)
            out.append({"name": "%s_%s_%s" % (gs, it, dt), "groupset": gs, "input_type": it, "dtype": dt, "n": n})
    return out


def run_case(case):
    from ..twin import Twin
    T = Twin()
    PE = T.mod("panoptica.panoptica_evaluator")
    PP = T.mod("panoptica.utils.processing_pair")
    LG = T.mod("panoptica.utils.label_group")
    SC = T.mod("panoptica.utils.segmentation_class")
    gs = GROUPSETS[case["groupset"]]
    it, dt, n = case["input_type"], case["dtype"], case["n"]
    lo = -1 if dt.startswith("int") else 0
    pv = [z3.Int("p%d" % i) for i in range(n)]
    rv = [z3.Int("r%d" % i) for i in range(n)]
    base = []
    wide = case["groupset"] == "wide_labels"
    for v in pv + rv:
        if wide:
            declare_bounds(v, 0, 512)
            base.append(z3.Or([v == x for x in WIDE]))
        else:
            declare_bounds(v, lo, 4)
            base.append(z3.And(v >= lo, v <= 4))
    calls = []

    class Dummy:
        computation_time = None

        def calculate_all(self, *a, **k):
            pass

    def recorder(input_pair=None, **kw):
        calls.append((input_pair, kw))
        return Dummy(), None
    PE.panoptic_evaluate = recorder

    def mkgroups():
        objs = []
        for name, kind, labels, single in gs:
            cls = LG.LabelMergeGroup if kind == "merge" else LG.LabelGroup
            objs.append((name, cls(list(labels), single)))
        if case["groupset"] == "colliding_names":
            return SC.SegmentationClassGroups({name: LG.LabelGroup(list(labels), False) for name, labels in COLLIDING})
        if case["groupset"] == "list_form":
            return SC.SegmentationClassGroups([o for _, o in objs])
        return SC.SegmentationClassGroups({name.upper(): o for name, o in objs})     # keys are lower-cased by the class
    defined = sorted({l for _, _, labels, _ in gs for l in labels})

    def decode(m):
        return {"groupset": case["groupset"], "input_type": it, "dtype": dt, "pred": [jsonable(v, m) for v in pv], "ref": [jsonable(v, m) for v in rv]}
    h = H(PROP, case["name"], decode, replay_kind="groups", max_witnesses=30)

    def body():
        del calls[:]
        pa = SArr(list(pv), dt).protect("caller prediction")
        ra = SArr(list(rv), dt).protect("caller reference")
        try:
            groups_obj = mkgroups()
        except EngineSignal:
            raise
        except (AssertionError, ValueError, KeyError) as e:
            # only the colliding definition may be refused at construction
            h.ok("group_definition_accepted", case["groupset"] == "colliding_names", detail=str(e)[:120])
            h.witness(expect=None)
            return
        ev = PE.Panoptica_Evaluator(expected_input=getattr(PP.InputType, it), segmentation_class_groups=groups_obj, decision_metric=T.panoptica.Metric.IOU, decision_threshold=0.5)
        undefined = z3.Or([z3.And(v != 0, z3.And([v != l for l in defined])) for v in pv + rv])
        try:
            out = ev.evaluate(pa, ra, verbose=False)
            raised = None
        except EngineSignal:
            raise
        except WriteToProtected as e:
            h.fail("no_input_mutation", detail=str(e))
            return
        except AssertionError as e:
            raised = e
        except Exception as e:
            h.fail("completes", detail="%s: %s" % (type(e).__name__, str(e)[:140]))
            return
        if raised is not None:
            # an error is only allowed for input the statement says must be rejected (undefined non-zero label)
            h.ok("error_only_for_undefined_label", undefined, detail=str(raised)[:140])
            h.ok("rejected_before_any_evaluation", len(calls) == 0)
            h.witness(expect={"raises": True})
            return
        h.ok("undefined_label_is_rejected", z3.Not(undefined))
        h.ok("one_evaluation_per_group", len(calls) == len(gs) and sorted(out.keys()) == sorted(g[0] for g in gs), detail={"keys": list(out.keys())})
        if len(calls) != len(gs):
            return
        groups_present = 0
        for (name, kind, labels, single), (pair, kw) in zip(gs, calls):
            def restrict(v):
                member = z3.Or([v == l for l in labels])
                return z3.If(member, z3.IntVal(1) if kind == "merge" else v, z3.IntVal(0))
            pc = [cnum(c) for c in pair.prediction_arr.cells]
            rc = [cnum(c) for c in pair.reference_arr.cells]
            h.ok("group_sees_exactly_its_labels", z3.And([a == restrict(v) for a, v in zip(pc, pv)] + [a == restrict(v) for a, v in zip(rc, rv)]), detail={"group": name})
            want_cls = "MatchedInstancePair" if (single and it != "MATCHED_INSTANCE") else {"SEMANTIC": "SemanticPair", "UNMATCHED_INSTANCE": "UnmatchedInstancePair", "MATCHED_INSTANCE": "MatchedInstancePair"}[it]
            h.ok("group_pair_class", type(pair).__name__ == want_cls, detail={"group": name, "class": type(pair).__name__})
            thr = kw.get("decision_threshold")
            if single and it != "MATCHED_INSTANCE":
                h.ok("single_instance_ignores_threshold", thr == 0.0, detail={"thr": repr(thr)})
            else:
                h.ok("group_gets_the_configured_decision_threshold", thr == 0.5, detail={"group": name, "thr": repr(thr)})
        h.note_nontrivial(str(sorted({str(z3.simplify(x)) for x in ENG.path})[:6]))
        h.witness(expect={"raises": False})
    return explore_case(h, body, base=base, time_budget=3000)


# ================================================================================================ real-package side
def _mkgroups_real(gsname):
    from panoptica.utils.label_group import LabelGroup, LabelMergeGroup
    from panoptica.utils.segmentation_class import SegmentationClassGroups
    gs = GROUPSETS[gsname]
    objs = [(name, (LabelMergeGroup if kind == "merge" else LabelGroup)(list(labels), single)) for name, kind, labels, single in gs]
    if gsname == "colliding_names":
        return SegmentationClassGroups({name: LabelGroup(list(labels), False) for name, labels in COLLIDING})
    if gsname == "list_form":
        return SegmentationClassGroups([o for _, o in objs])
    return SegmentationClassGroups({name.upper(): o for name, o in objs})


def real_groups(case, mode, expect):
    import numpy as np
    from panoptica import Panoptica_Evaluator, InputType, NaiveThresholdMatching, ConnectedComponentsInstanceApproximator, Metric
    from . import realcommon as RC
    RC.use_serial_pool(True)
    gs = GROUPSETS[case["groupset"]]
    it, dt = case["input_type"], case["dtype"]
    pred = np.array(case["pred"], dtype=dt)
    ref = np.array(case["ref"], dtype=dt)
    p0, r0 = pred.copy(), ref.copy()
    defined = {l for _, _, labels, _ in gs for l in labels}
    undefined = any(int(v) != 0 and int(v) not in defined for v in list(pred) + list(ref))

    def mk(itype, groups=None, thr=0.5, mthr=0.5):
        return Panoptica_Evaluator(expected_input=getattr(InputType, itype), instance_approximator=ConnectedComponentsInstanceApproximator(), instance_matcher=NaiveThresholdMatching(matching_threshold=mthr),
                                   segmentation_class_groups=groups, instance_metrics=[Metric.DSC, Metric.IOU], global_metrics=[Metric.DSC],
                                   decision_metric=None if thr is None else Metric.IOU, decision_threshold=thr)

    def compare(out, p0, r0, mthr=0.5):
        """each group's result against evaluating the restricted arrays without groups"""
        for name, kind, labels, single in gs:
            rp = np.where(np.isin(p0, labels), 1 if kind == "merge" else p0, 0).astype(dt)
            rr = np.where(np.isin(r0, labels), 1 if kind == "merge" else r0, 0).astype(dt)
            try:
                if single and it != "MATCHED_INSTANCE":
                    want = mk("MATCHED_INSTANCE", None, 0.0, mthr).evaluate(rp.astype(np.uint32), rr.astype(np.uint32), verbose=False)["ungrouped"][0]
                else:
                    want = mk(it, None, 0.5, mthr).evaluate(rp, rr, verbose=False)["ungrouped"][0]
            except Exception as e:
                return "reference evaluation of the restricted arrays failed: %s" % e
            got = out[name][0]
            for k in ("tp", "fp", "fn", "num_ref_instances", "num_pred_instances", "sq", "global_bin_dsc"):
                a, b = getattr(got, k), getattr(want, k)
                same = (a == b) or (isinstance(a, float) and isinstance(b, float) and a != a and b != b)
                if not same:
                    return "group_sees_exactly_its_labels: group %r %s=%r, restricted arrays alone give %r" % (name, k, a, b)
        return None

    # the same observation point as in the symbolic run: the arguments each group's panoptic_evaluate call receives on the real package
    import panoptica.panoptica_evaluator as RPE
    seen = []
    orig_pe = RPE.panoptic_evaluate

    def spy(*a, **kw):
        seen.append(kw.get("decision_threshold"))
        return orig_pe(*a, **kw)
    bad = None
    try:
        groups_obj = _mkgroups_real(case["groupset"])
    except (AssertionError, ValueError, KeyError) as e:
        refused_ok = case["groupset"] == "colliding_names"
        return {"match": True, "violates": not refused_ok, "reason": None if refused_ok else "group_definition_accepted: %s" % str(e)[:160], "observed": None}
    RPE.panoptic_evaluate = spy
    try:
        out = mk(it, groups_obj).evaluate(pred, ref, verbose=False)
        raised = None
    except AssertionError as e:
        raised = e
    except Exception as e:
        return {"match": False, "violates": True, "reason": "completes: %s: %s" % (type(e).__name__, str(e)[:160]), "observed": None}
    finally:
        RPE.panoptic_evaluate = orig_pe
    if not (np.array_equal(pred, p0) and np.array_equal(ref, r0)):
        return {"match": True, "violates": True, "reason": "no_input_mutation: evaluate modified the caller's arrays: %s -> %s" % (p0.tolist(), pred.tolist()), "observed": None}
    if raised is not None:
        if not undefined:
            bad = "error_only_for_undefined_label: %s" % str(raised)[:160]
    elif undefined:
        bad = "undefined_label_is_rejected: labels %s / %s evaluated without error" % (p0.tolist(), r0.tolist())
    else:
        bad = compare(out, p0, r0)
        if bad is None and len(seen) == len(gs):
            for (name, kind, labels, single), thr in zip(gs, seen):
                want_thr = 0.0 if (single and it != "MATCHED_INSTANCE") else 0.5
                if thr != want_thr:
                    bad = "group_gets_the_configured_decision_threshold: group %r is evaluated with decision threshold %r, configured %r" % (name, thr, want_thr)
                    # end-to-end consequence: an instance with IoU 1/3 (matcher threshold 1/4, decision threshold 1/2) in every multi-instance group
                    dp, dr = [], []
                    for _, k2, labs, sg in gs:
                        l = labs[0]
                        dp += [l, l, l, 0] if not sg else [l, 0]
                        dr += [l, 0, 0, 0] if not sg else [l, 0]
                    try:
                        dpa, dra = np.array(dp, dtype=dt), np.array(dr, dtype=dt)
                        demo = compare(mk(it, _mkgroups_real(case["groupset"]), 0.5, 0.25).evaluate(dpa, dra, verbose=False), dpa, dra, 0.25)
                        if demo:
                            bad += "; e.g. prediction %s reference %s (matcher threshold 0.25): %s" % (dp, dr, demo)
                    except Exception:
                        pass
                    break
    ok = mode != "witness" or expect is None or expect.get("raises") == (raised is not None)
    return {"match": ok, "why": None if ok else "twin raises=%s real raises=%s (%s)" % (expect.get("raises"), raised is not None, raised), "violates": bad is not None, "reason": bad, "observed": None}


REAL = {"groups": real_groups}
