"""shared pieces of the aggregator harnesses (C16 / C17): the operation alphabet at which crash / scheduling points are placed, stub
evaluator, and instrumentation that is applied identically to the twin module (file model) and to the real module (real files)."""
from __future__ import annotations

HELPERS = ["_write_content", "_read_first_row", "_load_first_column_entries"]
HEADER_CELL = "subject_name"


class Res:
    def __init__(self, d):
        self._d = d
        self.computation_time = None

    def to_dict(self):
        return dict(self._d)


class StubEvaluator:
    """duck-typed evaluator: one group 'g', metric 'tp' whose value is a function of the subject name (s<i> -> i) and metric 'sq' that is
    uncomputable (absent from the result dictionary -> empty cell) for every second subject"""
    segmentation_class_groups_names = ["g"]
    resulting_metric_keys = ["tp", "sq"]

    def __init__(self, on_eval=None):
        self.on_eval = on_eval
        self.current = None

    def evaluate(self, pred, ref, **kw):
        if self.on_eval is not None:
            self.on_eval(self.current)
        v = self.current_value if getattr(self, "current_value", None) is not None else int(str(self.current)[1:])
        d = {"tp": v}
        if v % 2 == 1:
            d["sq"] = 0.5
        return {"g": (Res(d), None)}


class Crash(BaseException):
    pass


class OpCounter:
    """counts the aggregator-level operations; `at(k)` is called before operation k (0-based) and may crash / yield"""

    def __init__(self, before=None):
        self.n = 0
        self.before = before
        self.log = []

    def point(self, name, arg=None):
        k = self.n
        self.n += 1
        self.log.append((name, arg))
        if self.before is not None:
            self.before(k, name, arg)


def instrument(A, counter, real_open):
    """wrap the aggregator module's helpers, its two locks, os.remove, the buffer-file creation and Path.exists with operation points.
    The same function instruments the twin module (file model) and the real module (real files), so operation k means the same in both."""
    import pathlib
    import types
    for name in HELPERS:
        orig = getattr(A, name)

        def make(o, nm):
            def w(*a, **k):
                counter.point(nm, _short(a[0]) if a else None)
                return o(*a, **k)
            return w
        setattr(A, name, make(orig, name))
    osm = types.SimpleNamespace(**{k: getattr(A.os, k) for k in dir(A.os) if not k.startswith("__")})
    real_remove = A.os.remove

    def remove(p):
        counter.point("remove", _short(p))
        return real_remove(p)
    osm.remove = remove
    A.os = osm

    def popen(p, mode="r", *a, **k):
        if "a" in mode and not a and not k:
            counter.point("create", _short(p))      # open(out_buffer_file, "a").close() in the constructor
        return real_open(p, mode, *a, **k)
    A.open = popen
    base = A.Path if not (isinstance(A.Path, type) and issubclass(A.Path, pathlib.PurePath)) else type(pathlib.Path())

    class CPath(base):
        def exists(self):
            if str(self).endswith(".tsv"):
                counter.point("exists", _short(self))
            return super().exists()
    A.Path = CPath
    for lname in ("filelock", "inevalfilelock"):
        setattr(A, lname, CountingLock(getattr(A, lname), lname, counter))


class CountingLock:
    def __init__(self, lock, name, counter):
        self.lock, self.name, self.counter = lock, name, counter

    def __enter__(self):
        self.counter.point("acq", self.name)
        self.lock.acquire()
        return self

    def __exit__(self, *a):
        self.counter.point("rel", self.name)
        self.lock.release()
        return False

    def acquire(self, *a, **k):
        self.counter.point("acq", self.name)
        return self.lock.acquire(*a, **k)

    def release(self):
        self.counter.point("rel", self.name)
        return self.lock.release()


def _short(p):
    s = str(p)
    return s.rsplit("/", 1)[-1]


def read_table(path):
    """real file -> list of rows (lists of str)"""
    import csv
    import os
    if not os.path.exists(path):
        return None
    with open(path, "r", encoding="utf8", newline="") as f:
        return [row for row in csv.reader(f, delimiter="\t", lineterminator="\n")]


def table_oracle(rows, subjects, values=None):
    """C16/C17 final-state oracle on a row list (cells as str): exactly one header, exactly one complete row per subject with its value"""
    if rows is None:
        return "output_file_exists: no output file"
    heads = [i for i, r in enumerate(rows) if r and r[0] == HEADER_CELL]
    if heads != [0]:
        return "header_exactly_once_first: header rows at %s in %s" % (heads, rows)
    if rows[0] != [HEADER_CELL, "g-tp", "g-sq"]:
        return "header_exactly_once_first: header is %s" % rows[0]
    for s in subjects:
        mine = [r for r in rows[1:] if r and r[0] == s]
        if len(mine) != 1:
            return "one_row_per_subject: subject %s has %d rows in %s" % (s, len(mine), rows)
        want = str(values[subjects.index(s)]) if values is not None else s[1:]
        wsq = "0.5" if int(want) % 2 == 1 else ""
        if len(mine[0]) != 3 or str(mine[0][1]) not in (want, want + ".0") or mine[0][2] != wsq:
            return "rows_complete_and_equal_to_uninterrupted_run: row %s" % (mine[0],)
    extra = [r for r in rows[1:] if not r or r[0] not in subjects]
    if extra:
        return "no_foreign_rows: %s" % extra
    return None
